------------------------------ MODULE CompTrace ------------------------------
(***************************************************************************)
(* Conformance of the real components with their models: drives            *)
(* TaskList.tla (plan storage, through a machine's plan()), BitArray.tla,  *)
(* Arrays.tla and BitStream.tla along a trace recorded by harness/comp.cpp *)
(* for one capacity and compares every recorded result - including the     *)
(* slot index of every task (a fingerprint of the free list) and the raw   *)
(* stream bytes - with the model's.                                        *)
(***************************************************************************)
EXTENDS Naturals, Sequences, FiniteSets, TLC, Json, IOUtils

TraceLog == ndJsonDeserialize(IOEnv.TRACE)
Cap == TraceLog[1].cap

VARIABLES l, rej, done, pl, bav, arv, bsbuf, bswcur, bsrcur, d1, d2, d3, d4
cvars == <<l, rej, done, pl, bav, arv, bsbuf, bswcur, bsrcur, d1, d2, d3, d4>>

TL == INSTANCE TaskList WITH CapT <- Cap, Vals <- {}, s <- pl, lastop <- d1
BA == INSTANCE BitArray WITH CapB <- Cap, Masks <- {}, b <- bav, lastop <- d1
AR == INSTANCE Arrays WITH CapA <- Cap, ElemVals <- {}, a <- arv, lastop <- d1, before <- d2
BS == INSTANCE BitStream WITH CapS <- Cap, Widths <- {}, MaxFields <- 0, buf <- bsbuf, cur <- bswcur, fields <- d2, rcur <- bsrcur, nread <- d3, lastop <- d4

B(x) == IF x THEN 1 ELSE 0
OrderTriples(s) == LET o == TL!Order(s) IN [i \in 1 .. Len(o) |-> <<o[i], s.items[o[i]][1], s.items[o[i]][2]>>]
SetToSeq(S) == LET RECURSIVE F(_, _) F(T, acc) == IF T = {} THEN acc ELSE LET m == CHOOSE x \in T : \A y \in T : x <= y IN F(T \ {m}, Append(acc, m)) IN F(S, <<>>)
MaskOf(k) == CASE k = 0 -> {i \in BA!Idx : i % 2 = 0} [] k = 1 -> {i \in BA!Idx : i % 3 = 1} [] k = 2 -> BA!Idx \ {Cap - 1} [] OTHER -> {}
ToBits(lo, hi, w) == [k \in 1 .. w |-> IF k <= 16 THEN BS!BitOf(lo, k - 1) ELSE BS!BitOf(hi, k - 17)]
RECURSIVE FromBits(_, _, _)
FromBits(bits, from, to) == IF from > to \/ from > Len(bits) THEN 0 ELSE bits[from] + 2 * FromBits(bits, from + 1, to)
BufSeq(bf) == [i \in 1 .. BS!Bytes |-> bf[i - 1]]
BitLen32(lo, hi) == IF hi = 0 THEN BS!BitLen(lo) ELSE 16 + BS!BitLen(hi)

Init == /\ l = 2 /\ rej = <<>> /\ done = FALSE
        /\ pl = TL!TLInit /\ bav = BA!BAInit /\ arv = AR!ARInit
        /\ bsbuf = [i \in 0 .. (BS!Bytes - 1) |-> 0] /\ bswcur = 0 /\ bsrcur = 0
        /\ d1 = 0 /\ d2 = 0 /\ d3 = 0 /\ d4 = 0

Bad(why, exp, e) == /\ rej' = IF Len(rej) < 5 THEN Append(rej, <<l, why, exp, e>>) ELSE rej
                    /\ l' = l + 1 /\ UNCHANGED <<done, pl, bav, arv, bsbuf, bswcur, bsrcur, d1, d2, d3, d4>>
Keep == UNCHANGED <<rej, done, d1, d2, d3, d4>>

StepPlan(e) ==
    LET res == CASE e.op = "new"       -> [s |-> TL!TLInit, r |-> 0]
                 [] e.op = "append"    -> LET a == TL!PlanAppend(pl, <<e.a, e.b>>) IN [s |-> a.s, r |-> B(a.r)]
                 [] e.op = "remove"    -> IF e.a >= 1 /\ e.a <= Len(pl.abs) THEN [s |-> TL!RemoveAtPos(pl, e.a), r |-> 1] ELSE [s |-> pl, r |-> 0]
                 [] e.op = "clear"     -> [s |-> TL!PlanClear(pl), r |-> 0]
                 [] e.op = "dataclear" -> [s |-> TL!DataClear(pl), r |-> 0]
                 [] e.op = "sweep"     -> LET w == TL!Sweep(pl, e.a) IN [s |-> w.s, r |-> Len(w.visited), vis |-> w.visited]
        \* what C10 talks about: results, and the tasks in iteration order (the slot a task lives in is the implementation's business)
        Tasks(tr) == [q \in 1 .. Len(tr) |-> <<tr[q][2], tr[q][3]>>]
        \* (the model's own invariants are established by model checking; re-evaluating them on every step only pays for small capacities)
    IN  IF e.r # res.r \/ Tasks(e.order) # res.s.abs \/ (Cap <= 8 /\ (~TL!Refines(res.s) \/ ~TL!FreeListOK(res.s)))
           \/ (e.op = "sweep" /\ (Tasks(e.vis) # pl.abs \/ ~TL!SweepVisitsAll(pl, e.a)))
        THEN Bad("plan differs from the model", [r |-> res.r, order |-> OrderTriples(res.s)], e)
        ELSE /\ pl' = res.s /\ l' = l + 1 /\ UNCHANGED <<rej, done, d1, d2, d4>> /\ UNCHANGED <<bav, arv, bsbuf, bswcur, bsrcur>>
             \* slot indices are compared too (a fingerprint of the free list), but a difference there alone is only reported as drift
             /\ d3' = IF d3 = 0 /\ (e.order # OrderTriples(res.s) \/ (e.op = "sweep" /\ e.vis # res.vis)) THEN l ELSE d3

StepBA(e) ==
    LET nb == CASE e.op = "new" -> BA!BAInit [] e.op = "set" -> BA!SetBit(bav, e.a) [] e.op = "clear" -> BA!ClearBit(bav, e.a)
                [] e.op = "setall" -> BA!SetAll(bav) [] e.op = "clearall" -> BA!ClearAll(bav) [] e.op = "and" -> BA!AndAssign(bav, MaskOf(e.a))
        bits == SetToSeq({i \in BA!Idx : BA!Get(nb, i)})
    IN  IF e.bits # bits \/ e.empty # B(BA!Empty(nb)) \/ bits # SetToSeq(nb.abs) \/ BA!Empty(nb) # (nb.abs = {})
        THEN Bad("bit array differs from the set model", [bits |-> SetToSeq(nb.abs), empty |-> B(nb.abs = {})], e)
        ELSE bav' = nb /\ l' = l + 1 /\ Keep /\ UNCHANGED <<pl, arv, bsbuf, bswcur, bsrcur>>

StepAR(e) ==
    LET na == CASE e.op = "new" -> AR!ARInit [] e.op = "sset" -> AR!SASet(arv, e.a, e.b) [] e.op \in {"sfill", "snew"} -> AR!SAFill(arv, e.a)
                [] e.op = "sclear" -> AR!SAClear(arv) [] e.op \in {"demplace", "dpush", "dpushm"} -> AR!DAEmplace(arv, e.a) [] e.op = "dclear" -> AR!DAClear(arv)
                [] e.op = "bemplace" -> AR!DBEmplace(arv, e.a) [] e.op = "bclear" -> AR!DBClear(arv) [] e.op = "dappend" -> AR!DAAppend(arv)
                [] e.op = "dchain" -> AR!DAChain(arv, e.a, e.b) [] e.op = "dchaina" -> AR!DAChainArr(arv, e.a)
        r  == IF e.op = "demplace" THEN Len(arv.da) ELSE IF e.op = "bemplace" THEN Len(arv.db) ELSE 0
    IN  IF e.sa # AR!SAIter(na) \/ e.da # na.da \/ e.dai # na.da \/ e.db # na.db \/ e.cnt # Len(na.da) \/ e.r # r
           \/ e.sempty # B(AR!SAEmpty(na)) \/ e.dempty # B(na.da = <<>>) \/ e.forms # 1
        THEN Bad("array differs from the function / sequence model", [sa |-> AR!SAIter(na), da |-> na.da, db |-> na.db, r |-> r], e)
        ELSE arv' = na /\ l' = l + 1 /\ Keep /\ UNCHANGED <<pl, bav, bsbuf, bswcur, bsrcur>>

StepBS(e) ==
    CASE e.op \in {"new", "newat"} ->
            \* a write stream opened at start cursor c (0 for "new") clears its buffer; both cursors start at c.
            \* (the model starts afresh even when the implementation did not, so that the rest of the trace stays comparable)
            LET c  == IF e.op = "new" THEN 0 ELSE e.a
                ok == e.bytes = [i \in 1 .. BS!Bytes |-> 0] /\ e.wcur = c /\ e.rcur = c
            IN  /\ bsbuf' = [i \in 0 .. (BS!Bytes - 1) |-> 0] /\ bswcur' = c /\ bsrcur' = c /\ l' = l + 1
                /\ rej' = IF ok \/ Len(rej) >= 5 THEN rej
                          ELSE Append(rej, <<l, "a new write stream does not start from a cleared buffer at its start cursor", <<>>, e>>)
                /\ UNCHANGED <<done, pl, bav, arv, d1, d2, d3, d4>>
      [] e.op = "write" ->
            LET r == BS!WriteLoop(bsbuf, bswcur, ToBits(e.b, e.d, e.a)) IN
            IF e.bytes # BufSeq(r.buf) \/ e.wcur # r.cur \/ r.cur # bswcur + e.a THEN Bad("write<W> differs from the model", [bytes |-> BufSeq(r.buf), wcur |-> r.cur], e)
            ELSE bsbuf' = r.buf /\ bswcur' = r.cur /\ l' = l + 1 /\ Keep /\ UNCHANGED <<pl, bav, arv, bsrcur>>
      [] e.op = "read" ->
            LET r == BS!ReadLoop(bsbuf, bsrcur, e.a, <<>>) IN
            IF e.rv # <<FromBits(r.bits, 1, 16), FromBits(r.bits, 17, 32)>> \/ e.rcur # r.cur \/ r.cur # bsrcur + e.a \/ e.bytes # BufSeq(bsbuf)
            THEN Bad("read<W> differs from the model", [rv |-> <<FromBits(r.bits, 1, 16), FromBits(r.bits, 17, 32)>>, rcur |-> r.cur], e)
            ELSE bsrcur' = r.cur /\ l' = l + 1 /\ Keep /\ UNCHANGED <<pl, bav, arv, bsbuf, bswcur>>

StepBW(e) == IF e.r # BitLen32(e.a, e.b) THEN Bad("bitWidth differs", BitLen32(e.a, e.b), e)
             ELSE l' = l + 1 /\ Keep /\ UNCHANGED <<pl, bav, arv, bsbuf, bswcur, bsrcur>>

Step == /\ ~done /\ l <= Len(TraceLog)
        /\ LET e == TraceLog[l] IN
           IF e.e # "op" THEN l' = l + 1 /\ Keep /\ UNCHANGED <<pl, bav, arv, bsbuf, bswcur, bsrcur>>
           ELSE CASE e.c = "plan" -> StepPlan(e) [] e.c = "ba" -> StepBA(e) [] e.c = "ar" -> StepAR(e) [] e.c = "bs" -> StepBS(e) [] e.c = "bw" -> StepBW(e)

Finish == /\ ~done /\ l > Len(TraceLog) /\ done' = TRUE
          /\ \A q \in 1 .. Len(rej) : PrintT(<<"COMP-REJECTED", rej[q][1], rej[q][2], "EXPECTED", rej[q][3], "GOT", rej[q][4]>>)
          /\ IF d3 # 0 THEN PrintT(<<"COMP-DRIFT", d3, "tasks occupy other slots than in the model (same sequence of tasks)">>) ELSE TRUE
          /\ IF rej = <<>> /\ TraceLog[Len(TraceLog)].e = "end" THEN PrintT(<<"COMP-ACCEPTED", Len(TraceLog)>>)
             ELSE IF rej = <<>> THEN PrintT(<<"COMP-REJECTED", l, "trace truncated (crash?)", "EXPECTED", <<>>, "GOT", <<>>>>) ELSE TRUE
          /\ UNCHANGED <<l, rej, pl, bav, arv, bsbuf, bswcur, bsrcur, d1, d2, d3, d4>>

Next == Step \/ Finish
=============================================================================
