// Driver for the FFSM2 verification harness: executes a script (explicit operations and/or seeded
// random scenarios) on real FSM::Instance objects and writes the recorded trace as ndjson.
//
//   harness <script|-> <trace-out>
//
// Script lines:
//   # comment
//   reset                                  new execution: destroys all instances, emits the cfg event
//   mode <i> script|hostile|none           decision provider for instance i (default script)
//   mark lanes|replica|saveload|none       the following operations form a cross-instance scenario (instance 0 leads)
//   @<i> <op> [a [b [p]]] [| <m>.<s>.<j>:<act>,<act> ; ...]
//   rnd <seed> <nops> <scenario> [kinds-mask [act-percent]]
// ops: ctor fill seed | copy src | dtor | enter | exit | update | react v | query v | to d | ito d | with d 0 p |
//      iwith d 0 p | succeed s | fail s | pc o d | pw o d p | px | pr idx | save | load bytes|-1(=last saved) |
//      rt d | re d | attach 0/1 | obs
// acts: T<d> W<d>.<p> X S S<s> F F<s> PC<o>.<d> PW<o>.<d>.<p> PX PR<idx>
#include <sys/time.h>
#include "ffsm2_harness.hpp"

#include <fstream>
#include <iostream>
#include <sstream>

using namespace vh;

template <int... Is>
static void emitIds(ISeq<Is...>) {
	const long ids[] = { static_cast<long>(FSM::stateId<St<Is>>())... };
	for (long v : ids) { g_rec.s(","); g_rec.i(v); }
}

static void emitCfg() {
	g_rec.s("{\"e\":\"cfg\",");
	g_rec.kv("N", VH_N); g_rec.kv("L", VH_L);
	// requested configuration (what the specification is instantiated with) and what the library actually instantiated
#if VH_PLANS
	g_rec.kv("cap", VH_CAP ? VH_CAP : VH_N);
	g_rec.kv("capact", FSM::Instance::TASK_CAPACITY);
#else
	g_rec.kv("cap", 0); g_rec.kv("capact", 0);
#endif
	g_rec.kv("Lact", FSM::SUBSTITUTION_LIMIT);
	g_rec.kv("head", VH_HEAD); g_rec.kv("manual", VH_MANUAL); g_rec.kv("pay", VH_PAY); g_rec.kv("ctx", VH_CTX);
	g_rec.kv("plans", VH_PLANS); g_rec.kv("serial", VH_SERIAL); g_rec.kv("hist", VH_HISTORY); g_rec.kv("log", VH_LOG); g_rec.kv("verbose", VH_VERBOSE);
#if VH_SERIAL
	g_rec.kv("serbits", FSM::Instance::SerialBuffer::BIT_CAPACITY);
#else
	g_rec.kv("serbits", 0);
#endif
#if defined(VH_DEV) && VH_DEV
	g_rec.kv("dev", 1);
#else
	g_rec.kv("dev", 0);
#endif
	g_rec.s("\"inj\":["); g_rec.i(injCount(NONE));
	for (int i = 0; i < VH_N; ++i) { g_rec.s(","); g_rec.i(injCount(i)); }
	g_rec.s("],\"def\":["); g_rec.i(VH_HEAD ? static_cast<long>(classMask(NONE)) : 0);
	for (int i = 0; i < VH_N; ++i) { g_rec.s(","); g_rec.i(static_cast<long>(classMask(i))); }
	g_rec.s("],\"ids\":["); g_rec.i(VH_HEAD ? static_cast<long>(FSM::stateId<Root>()) : 255);
	emitIds(MkSeq<VH_N>::Type());
	g_rec.s("]}\n");
}

static void destroyAll() {
	bool any = false;
	for (int i = 0; i < MAX_INST; ++i) any = any || (g_inst[i] && g_inst[i]->m);
	if (any) g_rec.s("{\"e\":\"mark\",\"k\":\"none\"}\n");		// tear-down is not part of any cross-instance scenario
	for (int i = 0; i < MAX_INST; ++i)
		if (g_inst[i]) {
			if (g_inst[i]->m) {
				Op o;
#if VH_MANUAL
				if (g_inst[i]->m->isActive()) { g_prov.beginOp(); g_prov.mode = PM_NONE; o.op = "exit"; execOp(i, o); }
#endif
				g_prov.beginOp(); g_prov.mode = PM_NONE; o.op = "dtor"; execOp(i, o);
			}
			delete g_inst[i]; g_inst[i] = nullptr;
		}
	g_serReg = -1;
	g_pendLog.clear();
}

static ProviderMode g_instMode[MAX_INST] = { PM_SCRIPT, PM_SCRIPT, PM_SCRIPT, PM_SCRIPT, PM_SCRIPT, PM_SCRIPT };

static bool parseAct(const std::string& t, Act& out) {
	// kind = leading letters, then up to three dot-separated ints
	size_t n = 0; while (n < t.size() && std::isalpha(static_cast<unsigned char>(t[n]))) ++n;
	std::string k = t.substr(0, n);
	int v[3] = { 0, 0, 0 }; int cnt = 0;
	std::stringstream ss(t.substr(n)); std::string part;
	while (std::getline(ss, part, '.') && cnt < 3) if (!part.empty()) v[cnt++] = std::atoi(part.c_str());
	if (k == "T") out = mkAct("T", v[0]);
	else if (k == "W") out = mkAct("W", v[0], 0, v[1]);
	else if (k == "X") out = mkAct("X");
	else if (k == "S") out = mkAct("S", cnt ? v[0] : NONE);
	else if (k == "F") out = mkAct("F", cnt ? v[0] : NONE);
	else if (k == "PC") out = mkAct("PC", v[0], v[1]);
	else if (k == "PW") out = mkAct("PW", v[0], v[1], v[2]);
	else if (k == "PX") out = mkAct("PX");
	else if (k == "PR") out = mkAct("PR", v[0]);
	else return false;
	return true;
}

static void parseDecisions(const std::string& text) {
	std::stringstream ss(text); std::string item;
	while (std::getline(ss, item, ';')) {
		const size_t colon = item.find(':');
		if (colon == std::string::npos) continue;
		std::string ks = item.substr(0, colon), as = item.substr(colon + 1);
		Key key = { 0, 0, 0 };
		if (std::sscanf(ks.c_str(), " %d.%d.%d", &key.m, &key.s, &key.j) != 3) continue;
		Acts acts;
		std::stringstream as2(as); std::string tok;
		while (std::getline(as2, tok, ',')) {
			size_t b = tok.find_first_not_of(" \t"), e = tok.find_last_not_of(" \t\r");
			if (b == std::string::npos) continue;
			Act a; if (parseAct(tok.substr(b, e - b + 1), a)) acts.push_back(a);
		}
		g_prov.keyed[key].push_back(acts);
	}
}

//------------------------------------------------------------------------------ random scenarios

struct Choice { const char* op; int w; };

static Op randomOp(Rng& r, Inst* in, bool allowLifecycle) {
	Op o;
	if (!in || !in->m) { o.op = "ctor"; o.a = r.below(5); o.b = r.below(1000); o.p = r.below(2); return o; }
#if VH_MANUAL
	if (!in->m->isActive()) {
		const int c = r.below(100);
		if (c < 55) o.op = "enter";
		else if (c < 70 && VH_SERIAL && g_serReg >= 0) { o.op = "load"; o.a = g_serReg; }
		else if (c < 85 && VH_HISTORY) { o.op = "re"; o.a = r.below(VH_N); }
		else if (c < 90 && allowLifecycle) o.op = "dtor";
		else if (c < 95) o.op = "obs";
		else if (VH_SERIAL) o.op = "save";
		else o.op = "enter";
		return o;
	}
#endif
	static const Choice choices[] = {
		{ "update", 26 }, { "react", 9 }, { "query", 4 }, { "to", 8 }, { "ito", 10 }, { "with", 5 }, { "iwith", 6 },
		{ "succeed", 5 }, { "fail", 3 }, { "pc", 7 }, { "pw", 4 }, { "px", 1 }, { "pr", 2 }, { "save", 3 }, { "load", 3 },
		{ "rt", 3 }, { "attach", 2 }, { "exit", 2 }, { "obs", 1 }, { "dtor", 1 }
	};
	int total = 0; for (const Choice& c : choices) total += c.w;
	for (int tries = 0; tries < 50; ++tries) {
		int pick = r.below(total); const char* name = nullptr;
		for (const Choice& c : choices) { if (pick < c.w) { name = c.op; break; } pick -= c.w; }
		o = Op(); o.op = name;
		if (o.op == "react" || o.op == "query") o.a = r.below(3);
		else if (o.op == "to" || o.op == "ito") o.a = r.below(VH_N);
		else if (o.op == "with" || o.op == "iwith") { o.a = r.below(VH_N); o.p = 1 + r.below(3); }
		else if (o.op == "succeed" || o.op == "fail") o.a = r.below(VH_N);
		else if (o.op == "pc") { o.a = r.below(VH_N); o.b = r.below(VH_N); }
		else if (o.op == "pw") { o.a = r.below(VH_N); o.b = r.below(VH_N); o.p = 1 + r.below(3); }
		else if (o.op == "pr") o.a = r.below(3);
		else if (o.op == "load") { if (g_serReg < 0) continue; o.a = g_serReg; }
		else if (o.op == "rt") o.a = r.chance(10) ? NONE : r.below(VH_N);
		else if (o.op == "attach") o.a = r.below(2);
		else if ((o.op == "dtor" || o.op == "exit") && !allowLifecycle) continue;
		if (inContract(*in, o)) return o;
	}
	o = Op(); o.op = "obs";
	return o;
}

static bool runOn(int idx, const Op& o, ProviderMode mode) {
	g_prov.mode = mode;
	g_prov.seen.clear(); g_prov.replayPos = 0; g_prov.deliveries = 0;
	return execOp(idx, o);
}

static void randomScenario(uint64_t seed, int nops, int scenario, unsigned kinds, int actPct) {
	Rng rng(seed);
	g_prov.rng = &rng; g_prov.kinds = kinds; g_prov.actPct = actPct;
	g_prov.budget = 40 * (VH_L + 3);
	if (scenario == 0) {					// single instance, full operation mix incl. lifecycle
		for (int n = 0; n < nops; ++n) {
			Op o = randomOp(rng, g_inst[0], true);
			g_prov.recorded.clear(); runOn(0, o, PM_RANDOM);
		}
	} else if (scenario == 1) {				// authority (0) + replica (1) kept in sync through replay
		g_rec.s("{\"e\":\"mark\",\"k\":\"replica\"}\n");
		Op c; c.op = "ctor"; c.a = rng.below(5); c.b = rng.below(1000); c.p = rng.below(2);
		g_prov.recorded.clear(); runOn(0, c, PM_RANDOM);
		c.a = rng.below(5); runOn(1, c, PM_HOSTILE);
#if VH_HISTORY
#if !VH_MANUAL
		{ Op ro; ro.op = "rt"; ro.a = g_inst[0]->m->activeStateId(); runOn(1, ro, PM_HOSTILE); }	// bring the replica to the authority's initial state
#endif
		for (int n = 0; n < nops; ++n) {
			Op o = randomOp(rng, g_inst[0], false);
			if (o.op == "load" || o.op == "rt" || o.op == "re" || o.op == "copy" || o.op == "move") continue;
			const bool wasActive = g_inst[0]->active();
			g_prov.recorded.clear();
			if (!runOn(0, o, PM_RANDOM)) continue;
			const bool nowActive = g_inst[0]->active();
			const FSM::Transition& pt = g_inst[0]->m->previousTransition();
			Op ro;
			if (!wasActive && nowActive) { ro.op = "re"; ro.a = pt ? pt.destination : 0; runOn(1, ro, PM_HOSTILE); }
			else if (wasActive && nowActive && (o.op == "update" || o.op == "react" || o.op == "ito" || o.op == "iwith")) {
				if (pt) { ro.op = "rt"; ro.a = pt.destination; } else ro.op = "obs";
				runOn(1, ro, PM_HOSTILE);
			}
		}
#endif
	} else if (scenario == 2) {				// lanes: same operations and decisions over different memory fills, plus copies
		g_rec.s("{\"e\":\"mark\",\"k\":\"lanes\"}\n");		// lane 2 (and its copies) never get a logger: their non-log trace must still be identical
		const int lanes = 4;		// 0: zero fill; 1: 0xFF fill; 2: zero fill, never a logger; 3: random fill
		Op c; c.op = "ctor"; c.b = rng.below(1000); c.p = rng.below(2);
		const long withLogger = c.p;
		for (int l = 0; l < lanes; ++l) {
			c.a = l == 0 ? 0 : l == 1 ? 1 : l == 2 ? 0 : 4;
			c.p = l == 2 ? 0 : withLogger;
			if (l == 0) { g_prov.recorded.clear(); runOn(0, c, PM_RANDOM); }
			else { g_prov.replay = g_prov.recorded; runOn(l, c, PM_REPLAY); }
		}
		bool nolog[MAX_INST] = { false, false, true, false, false, false };	// lane 2 differs from lane 0 ONLY in having no logger
		int live = lanes;
		const int copyAt = nops > 4 ? 2 + rng.below(nops - 3) : -1;
		const int copyAt2 = nops > 8 ? 2 + rng.below(nops - 3) : -1;
		for (int n = 0; n < nops; ++n) {
			if ((n == copyAt || n == copyAt2) && live < MAX_INST) {
				Op cp; cp.op = (VH_CTX != 2 && rng.chance(40)) ? "move" : "copy"; cp.a = rng.below(live);
				runOn(live, cp, PM_NONE);
				nolog[live] = nolog[cp.a];
				++live;
			}
			Op o = randomOp(rng, g_inst[0], false);
			g_prov.recorded.clear(); runOn(0, o, PM_RANDOM);
			g_prov.replay = g_prov.recorded;
			for (int l = 1; l < live; ++l)
				if (!(o.op == "attach" && nolog[l])) runOn(l, o, PM_REPLAY);
		}
	} else {
		g_rec.s("{\"e\":\"mark\",\"k\":\"saveload\"}\n");								// two independent instances exchanging saved state
		for (int n = 0; n < nops; ++n) {
			const int who = rng.below(2);
			Op o = randomOp(rng, g_inst[who], true);
			if (rng.chance(15) && g_inst[who] && g_inst[who]->m && VH_SERIAL) { o = Op(); o.op = "save"; }
			else if (rng.chance(15) && g_inst[who] && g_inst[who]->m && VH_SERIAL && g_serReg >= 0) { o = Op(); o.op = "load"; o.a = g_serReg; }
			g_prov.recorded.clear(); runOn(who, o, PM_RANDOM);
		}
	}
	g_prov.rng = nullptr;
}

//------------------------------------------------------------------------------

static void onSignal(int sig) {
	char t[64];
	int n = std::snprintf(t, sizeof t, "\n{\"e\":\"crash\",\"i\":%d,\"sig\":%d,\"pay\":%d}\n", g_curId, sig, VH_PAY);
	g_rec.flush();
	if (n > 0) { ssize_t w = ::write(g_rec.fd, t, static_cast<size_t>(n)); (void) w; }
	_exit(0);
}

int main(int argc, char** argv) {
	if (argc < 3) { std::fprintf(stderr, "usage: %s <script|-> <trace-out>\n", argv[0]); return 2; }
	std::ifstream file;
	std::istream* in = &std::cin;
	if (std::strcmp(argv[1], "-") != 0) { file.open(argv[1]); if (!file) { std::perror(argv[1]); return 2; } in = &file; }
	g_rec.fd = ::open(argv[2], O_WRONLY | O_CREAT | O_TRUNC, 0644);
	if (g_rec.fd < 0) { std::perror(argv[2]); return 2; }
	g_rec.buf.reserve(1u << 21);
	std::set_terminate([] { onSignal(6); });
	for (int sig : { SIGSEGV, SIGBUS, SIGFPE, SIGILL, SIGABRT, SIGALRM }) std::signal(sig, onSignal);
	// a call that never returns is detected by the processor time the run consumes, not by the wall clock: on a loaded machine a run
	// is slow, not hung (the wall clock is only a distant backstop)
	const char* lim = std::getenv("VH_ALARM");
	const unsigned cpuSeconds = lim ? static_cast<unsigned>(std::atoi(lim)) : 120u;
	std::signal(SIGPROF, [](int) { onSignal(SIGALRM); });
	struct itimerval tv; std::memset(&tv, 0, sizeof tv); tv.it_value.tv_sec = static_cast<time_t>(cpuSeconds);
	::setitimer(ITIMER_PROF, &tv, nullptr);
	::alarm(cpuSeconds * 30u);

	bool started = false;
	std::string line;
	while (std::getline(*in, line)) {
		if (line.empty() || line[0] == '#') continue;
		std::string head = line, dec;
		const size_t bar = line.find('|');
		if (bar != std::string::npos) { head = line.substr(0, bar); dec = line.substr(bar + 1); }
		std::stringstream ss(head);
		std::string w; ss >> w;
		if (w == "reset") { destroyAll(); emitCfg(); started = true; for (ProviderMode& m : g_instMode) m = PM_SCRIPT; continue; }
		if (!started) { emitCfg(); started = true; }
		if (w == "mark") {		// cross-instance scenario marker (lanes | replica | saveload | none), see spec/CrossTrace.tla
			std::string k; ss >> k;
			g_rec.s("{\"e\":\"mark\",\"k\":\""); g_rec.s(k.c_str()); g_rec.s("\"}\n");
			continue;
		}
		if (w == "mode") {
			int i = 0; std::string m; ss >> i >> m;
			if (i >= 0 && i < MAX_INST) g_instMode[i] = m == "hostile" ? PM_HOSTILE : m == "none" ? PM_NONE : PM_SCRIPT;
			continue;
		}
		if (w == "rnd") {
			unsigned long long seed = 1; int nops = 20, scenario = 0; unsigned kinds = 0xFFFFu; int pct = 35;
			ss >> seed >> nops >> scenario; if (!(ss >> kinds)) kinds = 0xFFFFu; if (!(ss >> pct)) pct = 35;
			randomScenario(seed, nops, scenario, kinds, pct);
			continue;
		}
		int idx = 0;
		if (w.size() > 1 && w[0] == '@') { idx = std::atoi(w.c_str() + 1); ss >> w; }
		Op o; o.op = w;
		if (!(ss >> o.a)) { o.a = 0; }
		if (!(ss >> o.b)) { o.b = 0; }
		if (!(ss >> o.p)) { o.p = 0; }
		if (o.op == "load" && o.a < 0) o.a = g_serReg;
		g_prov.beginOp();
		g_prov.budget = 40 * (VH_L + 3);
		parseDecisions(dec);
		g_prov.mode = (idx >= 0 && idx < MAX_INST) ? g_instMode[idx] : PM_NONE;
		execOp(idx, o);
	}
	destroyAll();
	g_rec.s("{\"e\":\"end\"}\n");
	g_rec.flush();
	::close(g_rec.fd);
	return 0;
}
