------------------------------- MODULE Arrays -------------------------------
(***************************************************************************)
(* StaticArrayT<T, CapA> (a total function over indices) and               *)
(* DynamicArrayT<T, CapA> (a bounded sequence), containers/array.inl.      *)
(***************************************************************************)
EXTENDS Naturals, Sequences, TLC
CONSTANTS CapA, ElemVals
FILLER == 0
AIdx == 0 .. (CapA - 1)
ARInit == [sa |-> [i \in AIdx |-> FILLER], da |-> <<>>, db |-> <<>>]
SASet(a, i, v) == [a EXCEPT !.sa[i] = v]
SAFill(a, v) == [a EXCEPT !.sa = [i \in AIdx |-> v]]
SAClear(a) == SAFill(a, FILLER)
SAEmpty(a) == \A i \in AIdx : a.sa[i] = FILLER
SAIter(a) == [i \in 1 .. CapA |-> a.sa[i - 1]]
DAEmplace(a, v) == [a EXCEPT !.da = Append(@, v)]          \* precondition Len < CapA (asserted in the code)
DAClear(a) == [a EXCEPT !.da = <<>>]
DBEmplace(a, v) == [a EXCEPT !.db = Append(@, v)]          \* the second array, the right-hand side of  da += db
DBClear(a) == [a EXCEPT !.db = <<>>]
DAAppend(a) == [a EXCEPT !.da = @ \o a.db]                 \* operator += (array): precondition Len(da) + Len(db) <= CapA
\* the append operators return the array itself, so appends can be chained in one expression:  (da += v) += w ,  (da += v) += db
DAChain(a, v, w) == DAEmplace(DAEmplace(a, v), w)
DAChainArr(a, v) == DAAppend(DAEmplace(a, v))
VARIABLES a, lastop, before                               \* before: the state before the last operation (history)
Ops == {[op |-> "sset", i |-> i, v |-> v] : i \in AIdx, v \in ElemVals} \cup {[op |-> "sfill", i |-> 0, v |-> v] : v \in ElemVals}
       \cup {[op |-> "sclear", i |-> 0, v |-> 0], [op |-> "dclear", i |-> 0, v |-> 0]} \cup {[op |-> "demplace", i |-> 0, v |-> v] : v \in ElemVals}
       \cup {[op |-> "dpush", i |-> 0, v |-> v] : v \in ElemVals} \cup {[op |-> "bemplace", i |-> 0, v |-> v] : v \in ElemVals}
       \cup {[op |-> "bclear", i |-> 0, v |-> 0], [op |-> "dappend", i |-> 0, v |-> 0]}
       \cup {[op |-> "dchain", i |-> w, v |-> v] : v \in ElemVals, w \in ElemVals} \cup {[op |-> "dchaina", i |-> 0, v |-> v] : v \in ElemVals}
Enabled(x, o) == /\ o.op \in {"demplace", "dpush"} => Len(x.da) < CapA
                 /\ o.op = "bemplace" => Len(x.db) < CapA
                 /\ o.op = "dappend" => Len(x.da) + Len(x.db) <= CapA
                 /\ o.op = "dchain" => Len(x.da) + 2 <= CapA
                 /\ o.op = "dchaina" => Len(x.da) + 1 + Len(x.db) <= CapA
Apply(x, o) == CASE o.op = "sset" -> SASet(x, o.i, o.v) [] o.op = "sfill" -> SAFill(x, o.v) [] o.op = "sclear" -> SAClear(x)
                 [] o.op \in {"demplace", "dpush"} -> DAEmplace(x, o.v) [] o.op = "dclear" -> DAClear(x)
                 [] o.op = "bemplace" -> DBEmplace(x, o.v) [] o.op = "bclear" -> DBClear(x) [] o.op = "dappend" -> DAAppend(x)
                 [] o.op = "dchain" -> DAChain(x, o.v, o.i) [] o.op = "dchaina" -> DAChainArr(x, o.v)
Init == a = ARInit /\ lastop = [op |-> "init", i |-> 0, v |-> 0] /\ before = ARInit
Next == \E o \in Ops : Enabled(a, o) /\ a' = Apply(a, o) /\ lastop' = o /\ before' = a
InvBounded == Len(a.da) <= CapA /\ Len(a.db) <= CapA
InvLastStored == lastop.op = "sset" => a.sa[lastop.i] = lastop.v
InvFill == lastop.op = "sfill" => \A i \in AIdx : a.sa[i] = lastop.v
InvClear == lastop.op = "sclear" => SAEmpty(a)
InvOrder == lastop.op \in {"demplace", "dpush"} => a.da = Append(before.da, lastop.v)
InvAppend == lastop.op = "dappend" => /\ Len(a.da) = Len(before.da) + Len(before.db)
                                      /\ \A i \in 1 .. Len(before.da) : a.da[i] = before.da[i]
                                      /\ \A i \in 1 .. Len(before.db) : a.da[Len(before.da) + i] = before.db[i]
                                      /\ a.db = before.db /\ a.sa = before.sa
InvChain == /\ lastop.op = "dchain" => a.da = before.da \o <<lastop.v, lastop.i>>
            /\ lastop.op = "dchaina" => a.da = Append(before.da, lastop.v) \o before.db /\ a.db = before.db
InvIndependent == /\ lastop.op \in {"sset", "sfill", "sclear"} => a.da = before.da /\ a.db = before.db
                  /\ lastop.op \in {"demplace", "dpush", "dclear"} => a.sa = before.sa /\ a.db = before.db
                  /\ lastop.op \in {"bemplace", "bclear"} => a.sa = before.sa /\ a.da = before.da
StateView == a
=============================================================================
