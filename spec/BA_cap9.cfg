CONSTANTS
  CapB = 9
  Masks <- MasksFor
INIT Init
NEXT Next
VIEW StateView
CHECK_DEADLOCK FALSE
INVARIANT InvRefines
