CONSTANTS
  N = 2
  L = 1
  Cap = 1
  HasHead = TRUE
  Manual = FALSE
  HasPay = FALSE
  HasPlans = FALSE
  HasSerial = FALSE
  HasHist = TRUE
  HasLog = FALSE
  Verbose = FALSE
  InjCnt <- NoInj
  DefMask <- AllDef
  MaxActs = 1
  WithMonitors = FALSE
  EnvOps <- TourOps
  EnvActs <- TourActs
  EnvPoints <- TourPoints
INIT Init
NEXT Next
VIEW TourView
CHECK_DEADLOCK FALSE
INVARIANT TypeOK
