------------------------------- MODULE Arrays -------------------------------
(***************************************************************************)
(* StaticArrayT<T, CapA> (a total function over indices) and               *)
(* DynamicArrayT<T, CapA> (a bounded sequence), containers/array.inl.      *)
(***************************************************************************)
EXTENDS Naturals, Sequences, TLC
CONSTANTS CapA, ElemVals
FILLER == 0
AIdx == 0 .. (CapA - 1)
ARInit == [sa |-> [i \in AIdx |-> FILLER], da |-> <<>>]
SASet(a, i, v) == [a EXCEPT !.sa[i] = v]
SAFill(a, v) == [a EXCEPT !.sa = [i \in AIdx |-> v]]
SAClear(a) == SAFill(a, FILLER)
SAEmpty(a) == \A i \in AIdx : a.sa[i] = FILLER
SAIter(a) == [i \in 1 .. CapA |-> a.sa[i - 1]]
DAEmplace(a, v) == [a EXCEPT !.da = Append(@, v)]          \* precondition Len < CapA (asserted in the code)
DAClear(a) == [a EXCEPT !.da = <<>>]
VARIABLES a, lastop
Ops == {[op |-> "sset", i |-> i, v |-> v] : i \in AIdx, v \in ElemVals} \cup {[op |-> "sfill", i |-> 0, v |-> v] : v \in ElemVals}
       \cup {[op |-> "sclear", i |-> 0, v |-> 0], [op |-> "dclear", i |-> 0, v |-> 0]} \cup {[op |-> "demplace", i |-> 0, v |-> v] : v \in ElemVals}
Enabled(x, o) == o.op = "demplace" => Len(x.da) < CapA
Apply(x, o) == CASE o.op = "sset" -> SASet(x, o.i, o.v) [] o.op = "sfill" -> SAFill(x, o.v) [] o.op = "sclear" -> SAClear(x)
                 [] o.op = "demplace" -> DAEmplace(x, o.v) [] o.op = "dclear" -> DAClear(x)
Init == a = ARInit /\ lastop = [op |-> "init", i |-> 0, v |-> 0]
Next == \E o \in Ops : Enabled(a, o) /\ a' = Apply(a, o) /\ lastop' = o
InvBounded == Len(a.da) <= CapA
InvLastStored == lastop.op = "sset" => a.sa[lastop.i] = lastop.v
InvFill == lastop.op = "sfill" => \A i \in AIdx : a.sa[i] = lastop.v
InvClear == lastop.op = "sclear" => SAEmpty(a)
InvOrder == lastop.op = "demplace" => a.da[Len(a.da)] = lastop.v
StateView == a
=============================================================================
