CONSTANTS
  N = 3
  L = 1
  Cap = 2
  HasHead = TRUE
  Manual = FALSE
  HasPay = FALSE
  HasPlans = FALSE
  HasSerial = FALSE
  HasHist = TRUE
  HasLog = FALSE
  Verbose = FALSE
  InjCnt <- Inj2
  DefMask <- AllDef
  MaxActs = 1
  WithMonitors = TRUE
  EnvOps <- GuardOps
  EnvActs <- GuardActs
  EnvPoints <- GuardPoints
INIT Init
NEXT Next
VIEW StView
CHECK_DEADLOCK FALSE
INVARIANT TypeOK
INVARIANT MonitorsQuiet
INVARIANT RoundsBounded
INVARIANT IdleClean
INVARIANT ActivityConsistent
INVARIANT PlanWithinCapacity
INVARIANT PrevNamesActive

