#!/usr/bin/env python3
"""Regenerate /verif/MANIFEST.json from the property table (keeps the manifest in step with the machinery)."""
import json
import os
import sys

sys.path.insert(0, os.path.dirname(os.path.abspath(__file__)))
import props  # noqa: E402

VERIF = os.path.dirname(os.path.dirname(os.path.abspath(__file__)))

TEXT = {
    "C01": ("TLC explores FFSM2.tla exhaustively for small constants with the enter/exit pairing monitor folded over every behaviour (automatic and manual activation, head and peer roots, load/replay/copy); the same monitor then runs over traces recorded from the real machine on 16 compile-time profiles (N=1..9 and wide machines with 64, 128 and 255 states; payloads, injections, sparse classes, every context kind), each trace also validated step by step against the specification.",
            "TLC model checking of FFSM2.tla + trace validation (conformance and pairing monitor) of recorded implementation traces"),
    "C02": ("Exhaustive exploration of every assignment of requests to phase callbacks and guards (N<=3, L=2) with the outcome monitor (last surviving request wins; unchanged at request time); conformance + monitor on recorded traces from enumerated guard-decision scripts and seeded random drivers at other constants.",
            "TLC model checking + trace validation with outcome monitor"),
    "C03": ("Exhaustive exploration of all guard decisions over successive rounds (pass, cancel, redirect, cancel+redirect, redirect to a vetoing state) with the veto monitor; the same decisions are enumerated as scripts against the real machine and every recorded trace is validated by TLC.",
            "TLC model checking + enumerated guard scripts validated against the spec and veto monitor"),
    "C04": ("Invariant rounds<=L and liveness (every call returns, weak fairness) model-checked; witness that the limit is hit with a leftover request; recorded traces from ping-pong guard scripts for L in {1,2,3,4,7} are checked by the round-counting monitor, a missing return (crash/hang) is a violation.",
            "TLC safety + liveness checking, trace validation with round-counting monitor"),
    "C05": ("The cycle order is the continuation pushed by update/react/query in the specification; TLC checks the order monitor over all behaviours, recorded traces (with and without head, N=1..9) are validated step by step so any reordered, duplicated or misdirected phase callback is a mismatch.",
            "TLC model checking + trace validation with cycle-order monitor"),
    "C06": ("Every callback delivery records what the control reports (own id, isActive for every id, context identity, request, pending and current transitions) next to the machine's own answers; the view monitor compares them on every recorded delivery and TLC shows the monitor accepts all specification behaviours.",
            "TLC model checking + per-delivery view comparison on recorded traces"),
    "C07": ("Payload tokens flow request -> pending -> current -> previous in the specification (model-checked over interleavings of payload-carrying and payload-free requests); in the harness tokens are whole-object byte patterns for five payload types (sizes 1..32, alignments 1..16) and any byte mismatch is reported as a corrupt token.",
            "TLC model checking of token flow + byte-pattern payload tracing on the real machine"),
    "C08": ("The plan scan is specified as in the code and explored exhaustively (N<=3, Cap=2: every plan content, status pattern, veto); the firing monitor re-derives from observations which tasks fired and checks origin/active/success/prefix/consumption rules on recorded traces including plans headed by an origin-0 task.",
            "TLC model checking + plan-firing monitor on recorded traces"),
    "C09": ("planSucceeded/planFailed delivery conditions are invariants of the monitor over all explored behaviours; every recorded execution is additionally run over storage pre-filled with 0x00/0xFF/0xAA/0x01/random patterns (placement new), which is where an uninitialised planExists shows.",
            "TLC model checking + plan-outcome monitor, machines constructed over pre-filled memory"),
    "C10": ("TaskList.tla transcribes the free list (prev/next aliasing origin/destination) and the plan's link list branch by branch; TLC checks refinement to a capacity-bounded sequence and that no slot ever leaks over the complete state graph for capacities 1..4; the iterator protocol (remove while iterating) is part of the model; every transition of those graphs is replayed on the real plan (results and task sequence decide, slot indices are compared as a fingerprint of the free list and reported as drift), plus seeded long sequences at capacities up to 254, a wear scenario (several hundred refills of a full plan within one activation), the plan-view monitor on all machine traces and the consistency of every form of the plan (mutable / const iterators, first(), last(), emptiness) in every callback view.",
            "TLC model checking of TaskList.tla + edge-covering tours of its state graph replayed on the real plan + trace validation"),
    "C13": ("BitStream.tla transcribes the per-byte chunk loops of write<W>/read<W>; TLC checks packing (no gaps, LSB first, tail zero, cursor arithmetic) and round trips for field sequences with boundary patterns, and bitWidth sufficiency for every state count 1..255 (ASSUME); the real streams (also streams opened at a start cursor over a dirty buffer) are driven over every (start offset, width 1..32) pair at several capacities with raw buffer bytes and cursors compared after every operation, bitWidth() compared on powers of two +-1 and random 32-bit values.",
            "TLC model checking of BitStream.tla + byte-exact trace validation of the real streams"),
    "C20": ("BitArray.tla models the byte/mask implementation and TLC checks it against a set of integers (get, empty, padding bits) over the complete graphs for capacities 1,7,8,9 (12 in thorough); every transition of those graphs is replayed on the real BitArrayT, plus random sequences at other capacities up to 255 and, for the bit array alone, 300 bits (thorough also 256, 257, 512: indices an 8-bit value cannot hold); Arrays.tla does the same for the fixed and growable arrays (iteration order, fill/clear).",
            "TLC model checking of BitArray.tla / Arrays.tla + edge-covering tours replayed on the real containers"),
    "C11": ("History rules (previousTransition equals the surviving transition, empty if none, replayTransition(invalid) changes nothing) are checked by TLC on the specification and by the history monitor on recorded traces; a second real instance with hostile guards is kept in sync purely through replayEnter/replayTransition and must show the same active state after every step.",
            "TLC model checking + history monitor + authority/replica lock-step on the real code"),
    "C12": ("Save/Load are specification actions (encode/decode of the activity state, exactly the needed lifecycle callbacks, no guards) model-checked for manual activation; every (saver state, loader state) pair is executed on the real code, the buffer bytes (with canaries around the buffer) are compared with the canonical encoding.",
            "TLC model checking + all saver/loader pairs replayed on the real code"),
    "C14": ("Dispatch is behaviour of the machine specification (a request for id k activates state k and only its callbacks run); for every state count of the sweep a real machine with that many states is built and every index k is visited (immediate change, update, react, query, guard redirects across the halves of the state list, a plan task), the trace is validated step by step against FFSM2.tla with N read from the trace, and the monitor checks stateId<T>() for every T, control.stateId(), and that access<T>() is the object whose callbacks run. Quick: 25 state counts around powers of two up to 255; thorough: every N in 1..255.",
            "trace validation of an N-sweep (up to all N in 1..255) against the TLA+ specification + id monitor"),
    "C19": ("One program that uses every feature where it is compiled in (operations of absent features are skipped by the harness) plus two random scenarios is built under switch combinations (quick: pairwise-covering 32 rows + ENABLE_ALL, two compilers, four standards sampled; thorough: all 256 combinations x {g++, clang++} x {11,14,17,20}), alternating activation mode, payload and header variant; a combination that does not compile is a violation; each recorded trace is validated against FFSM2.tla with the feature constants read from the trace, so any behavioural difference caused by an unused feature is a mismatch. The amalgamation clause is decided by regenerating the header with tools/join.py on a scratch copy and comparing bytes (auxiliary, not a TLA+ result).",
            "build matrix + trace validation against the TLA+ specification; byte comparison of the regenerated single header"),
    "C15": ("Delivery frames expand into injection sub-deliveries in the specification; the order monitor checks each delivery on recorded traces of profiles with 0-3 injections on root and states.",
            "TLC model checking + sub-delivery order monitor"),
    "C16": ("Log records are part of the specified events (method record first, only if attached and verbose or defined; transition/cancel/status records at the actions); TLC checks sparse and verbose configurations, the logging monitor checks recorded traces relative to the deliveries actually observed, and lanes that differ only in logger attachment must produce identical non-log traces.",
            "TLC model checking + logging monitor + logger on/off lane comparison"),
    "C17": ("The specification is a deterministic function of configuration and inputs; every script is executed on several real instances constructed over different memory fill patterns and on copy-constructed instances taken at random idle points, all fed the same inputs and decisions: their traces must be accepted by the specification and pairwise identical.",
            "trace validation of lanes (memory fills, copies) against the deterministic TLA+ specification"),
}


def main():
    with open(os.path.join(VERIF, "properties.jsonl")) as f:
        ids = [json.loads(l)["id"] for l in f if l.strip()]
    claimed = [p for p in ids if p in props.PROPS and p in TEXT and p not in props.NOT_YET]
    checks = []
    for p in claimed:
        text, tech = TEXT[p]
        checks.append({
            "property_id": p,
            "quick_cmd": "bin/check %s --tier quick" % p,
            "thorough_cmd": "bin/check %s --tier thorough" % p,
            "evidence_file": "/verif/evidence/%s.json" % p,
            "replay_cmd_template": "bin/check replay {path}",
            "engine": "tlc",
            "level_claimed": {"category": props.LEVEL.get(p, "model_checking"), "text": text, "design_ref": "DESIGN.md section 6 (%s)" % p},
            "level_note": "Exhaustive only for the stated small constants of the TLA+ model; larger constants are covered by validating recorded implementation traces (seeded random and enumerated scripts), not by proof. Trusted: TLC, the harness's recording of public-API observations, g++.",
            "technique": tech,
        })
    na = []
    for p in ids:
        if p in claimed:
            continue
        na.append({"property_id": p, "reason": props.NA_REASON.get(p, "check not built yet (construction in progress, see DESIGN.md section 12)")})
    man = {
        "version": 1,
        "setup_cmd": "bin/check setup",
        "hooks": {
            "guard": "FFSM2_VERIF",
            "enable": "no source hooks are needed: every observation goes through the public API; harness translation units are compiled with -DFFSM2_VERIF (the define guards nothing in /repo)",
            "baseline_off_cmd": "cmake --build /repo/_build && ctest --test-dir /repo/_build -j8 --timeout 900",
            "source_commits": [],
            "add_only": True,
        },
        "engines": [
            {"name": "tlc", "path": "/opt/veriftools/tla/tla2tools.jar", "serves_properties": claimed,
             "kind_free_text": "explicit-state model checker for the TLA+ specification in /verif/spec; also validates recorded implementation traces (FFSM2Trace.tla) and runs the per-property monitors (Monitors.tla)"},
            {"name": "harness", "path": "/verif/harness", "serves_properties": claimed,
             "kind_free_text": "C++ conformance harness: real FSM::Instance driven by scripts / seeded random drivers, ndjson recorder"},
        ],
        "checks": checks,
        "not_applicable": na,
        "notes": "Specification -> code: TLC's simulation mode exports behaviours of FFSM2.tla at each profile's constants (FFSM2Sim.tla), which are replayed on the real machine and validated like every other trace; edge-covering tours do the same for the component models and a small machine configuration. The monitors themselves are tested by mutating the specification (lib/specmut.py). All checks share one pool of recorded implementation traces (cached per /repo tree hash, spec hash and seed under /verif/work); each property's verdict comes from its own monitor, a conformance mismatch alone is reported as CONFORMANCE-DRIFT and does not fail the check.",
    }
    with open(os.path.join(VERIF, "MANIFEST.json"), "w") as f:
        json.dump(man, f, indent=1)
    print("claimed:", " ".join(claimed))
    print("not applicable:", " ".join(x["property_id"] for x in na))


if __name__ == "__main__":
    main()
