CONSTANTS
  CapA = 3
  ElemVals = {0, 1, 2}
INIT Init
NEXT Next
CHECK_DEADLOCK FALSE
INVARIANT InvBounded
INVARIANT InvLastStored
INVARIANT InvFill
INVARIANT InvClear
INVARIANT InvOrder
INVARIANT InvAppend
INVARIANT InvIndependent
INVARIANT InvChain
