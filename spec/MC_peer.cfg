CONSTANTS
  N = 3
  L = 2
  Cap = 2
  HasHead = FALSE
  Manual = TRUE
  HasPay = FALSE
  HasPlans = FALSE
  HasSerial = FALSE
  HasHist = TRUE
  HasLog = FALSE
  Verbose = FALSE
  InjCnt <- NoInj
  DefMask <- AllDef
  MaxActs = 2
  WithMonitors = TRUE
  EnvOps <- GuardOps
  EnvActs <- GuardActs
  EnvPoints <- GuardPoints
INIT Init
NEXT Next
VIEW StView
CHECK_DEADLOCK FALSE
INVARIANT TypeOK
INVARIANT MonitorsQuiet
INVARIANT RoundsBounded
INVARIANT IdleClean
INVARIANT ActivityConsistent
INVARIANT PlanWithinCapacity
INVARIANT PrevNamesActive

