------------------------------ MODULE TaskList ------------------------------
(***************************************************************************)
(* Implementation-level model of the plan storage of FFSM2:                *)
(*   TaskListT<_, Cap>  - slots with an intrusive free list; the links     *)
(*                        (prev/next) share storage with the task's        *)
(*                        origin/destination (a union in the code),        *)
(*   PlanT              - doubly linked order list (taskLinks) + Bounds,   *)
(* transcribed branch by branch from features/task_list.inl and            *)
(* root/plan_1.inl, together with the abstract value it must refine: a     *)
(* sequence of tasks with an exact capacity.                               *)
(***************************************************************************)
EXTENDS Naturals, Sequences, FiniteSets, TLC

CONSTANTS CapT,     \* task capacity (1 .. 254)
          Vals      \* set of task values <<origin, destination>> used by the environment

INV == 255
Slots == 0 .. (CapT - 1)

TLInit == [
    items |-> [i \in Slots |-> <<INV, INV>>],      \* <<origin | prev, destination | next>>
    vh |-> 0, vt |-> 0, last |-> 0, count |-> 0,    \* _vacantHead, _vacantTail, _last, _count
    links |-> [i \in Slots |-> <<INV, INV>>],       \* TaskLink {prev, next}
    first |-> INV, lastb |-> INV,                   \* Bounds
    abs |-> <<>> ]                                  \* ghost: the abstract plan

\* TaskListT::emplace -> [s, r]
Emplace(s, v) ==
    IF s.count < CapT
    THEN LET index == s.vh
             item  == s.items[index]
             s1 == IF s.vh # s.vt
                   THEN \* recycle
                        LET nh == item[2] IN
                        [s EXCEPT !.vh = nh, !.items[nh] = <<INV, @[2]>>]
                   ELSE IF s.last < CapT - 1
                   THEN \* grow
                        [s EXCEPT !.last = @ + 1, !.vh = s.last + 1, !.vt = s.last + 1, !.items[s.last + 1] = <<INV, INV>>]
                   ELSE \* last
                        [s EXCEPT !.last = CapT, !.vh = INV, !.vt = INV]
         IN  [s |-> [s1 EXCEPT !.items[index] = v, !.count = @ + 1], r |-> index]
    ELSE [s |-> s, r |-> INV]

\* TaskListT::remove
Remove(s, i) ==
    IF s.count < CapT
    THEN [s EXCEPT !.items[i] = <<INV, s.vh>>, !.items[s.vh] = <<i, @[2]>>, !.vh = i, !.count = @ - 1]
    ELSE [s EXCEPT !.items[i] = <<INV, INV>>, !.vh = i, !.vt = i, !.count = @ - 1]

\* TaskListT::clear
ClearList(s) == [s EXCEPT !.vh = 0, !.vt = 0, !.last = 0, !.count = 0]

\* PlanT::linkTask
Link(s, index) ==
    IF s.first = INV
    THEN [s EXCEPT !.first = index, !.lastb = index]
    ELSE [s EXCEPT !.links[s.lastb] = <<@[1], index>>, !.links[index] = <<s.lastb, @[2]>>, !.lastb = index]

\* PlanT::append -> [s, r]
PlanAppend(s, v) ==
    IF s.count < CapT
    THEN LET e == Emplace(s, v) IN [s |-> [Link(e.s, e.r) EXCEPT !.abs = Append(@, v)], r |-> TRUE]
    ELSE [s |-> s, r |-> FALSE]

\* PlanT::remove(index)
PlanRemove(s, index) ==
    LET link == s.links[index]
        s1 == IF link[1] < CapT THEN [s EXCEPT !.links[link[1]] = <<@[1], link[2]>>] ELSE [s EXCEPT !.first = link[2]]
        s2 == IF link[2] < CapT THEN [s1 EXCEPT !.links[link[2]] = <<link[1], @[2]>>] ELSE [s1 EXCEPT !.lastb = link[1]]
    IN  Remove([s2 EXCEPT !.links[index] = <<INV, INV>>], index)

\* slot index of the n-th task in iteration order (1-based), following the links like the iterators do
RECURSIVE NthSlot(_, _, _)
NthSlot(s, cur, n) == IF n = 1 THEN cur ELSE NthSlot(s, s.links[cur][2], n - 1)

RemoveAtPos(s, n) == LET idx == NthSlot(s, s.first, n) IN
    [PlanRemove(s, idx) EXCEPT !.abs = [j \in 1 .. (Len(s.abs) - 1) |-> IF j < n THEN s.abs[j] ELSE s.abs[j + 1]]]

\* PlanT::Iterator: _curr and _next are cached when the iterator is constructed / advanced, remove() acts on _curr.
\* Sweep = one complete iteration `for (it = plan.begin(); it; ++it)' during which the task at the k-th visited
\* position is removed through the iterator iff bit k-1 of `mask' is set (positions beyond 16 are never removed).
MBit(mask, k) == k < 16 /\ (mask \div (2 ^ k)) % 2 = 1
ItNext(s, cur) == IF cur < CapT THEN s.links[cur][2] ELSE INV
RECURSIVE SweepFrom(_, _, _, _, _, _)
SweepFrom(s, cur, nxt, k, mask, visited) ==
    IF ~(cur < CapT) \/ k > CapT + 1 THEN [s |-> s, visited |-> visited]
    ELSE LET v  == s.items[cur]                                              \* read before remove(): the links reuse the task's storage
             s1 == IF MBit(mask, k - 1) THEN PlanRemove(s, cur) ELSE s
         IN  SweepFrom(s1, nxt, ItNext(s1, nxt), k + 1, mask, Append(visited, <<cur, v[1], v[2]>>))
RECURSIVE FilterMask(_, _, _)
FilterMask(seq, mask, i) == IF i > Len(seq) THEN <<>> ELSE (IF MBit(mask, i - 1) THEN <<>> ELSE <<seq[i]>>) \o FilterMask(seq, mask, i + 1)
Sweep(s, mask) == LET r == SweepFrom(s, s.first, ItNext(s, s.first), 1, mask, <<>>) IN
    [s |-> [r.s EXCEPT !.abs = FilterMask(s.abs, mask, 1)], visited |-> r.visited]
\* removing through the iterator must not disturb the iteration: every task of the plan as it was is visited once, in order
SweepVisitsAll(s, mask) == LET vis == Sweep(s, mask).visited IN [i \in 1 .. Len(vis) |-> <<vis[i][2], vis[i][3]>>] = s.abs

\* PlanT::clearTasks (remove every task following the links, then reset the bounds)
RECURSIVE ClearFrom(_, _)
ClearFrom(s, index) == IF index = INV THEN s ELSE LET nx == s.links[index][2] IN ClearFrom(PlanRemove(s, index), nx)
PlanClear(s) == IF s.first < CapT THEN [ClearFrom(s, s.first) EXCEPT !.first = INV, !.lastb = INV, !.abs = <<>>] ELSE s

\* PlanDataT::clear (deactivation / load): indices reset, links refilled, bounds cleared
DataClear(s) == [ClearList(s) EXCEPT !.links = [i \in Slots |-> <<INV, INV>>], !.first = INV, !.lastb = INV, !.abs = <<>>]

-----------------------------------------------------------------------------
(* Refinement: what the concrete structure must look like for any history   *)

RECURSIVE Walk(_, _, _)
Walk(s, cur, fuel) == IF cur = INV \/ fuel = 0 THEN <<>> ELSE <<cur>> \o Walk(s, s.links[cur][2], fuel - 1)

Order(s) == Walk(s, s.first, CapT + 1)                      \* slot indices in iteration order
Shown(s) == [i \in 1 .. Len(Order(s)) |-> s.items[Order(s)[i]]]   \* what iteration yields

RECURSIVE FreeWalk(_, _, _)
FreeWalk(s, cur, fuel) == IF cur = INV \/ fuel = 0 THEN <<>> ELSE <<cur>> \o (IF cur = s.vt THEN <<>> ELSE FreeWalk(s, s.items[cur][2], fuel - 1))

Refines(s) ==
    /\ Shown(s) = s.abs                                     \* iteration = tasks appended and not removed, in append order
    /\ Len(s.abs) = s.count /\ s.count <= CapT
    /\ Len(Order(s)) <= CapT                                \* no cycle
    /\ (s.abs = <<>>) = (s.first = INV) /\ (s.abs = <<>>) = (s.lastb = INV)
    /\ s.abs # <<>> => Order(s)[1] = s.first /\ Order(s)[Len(Order(s))] = s.lastb /\ s.links[s.first][1] = INV /\ s.links[s.lastb][2] = INV
    /\ \A i \in 1 .. Len(Order(s)) : \A j \in 1 .. Len(Order(s)) : i # j => Order(s)[i] # Order(s)[j]
    /\ \A i \in 2 .. Len(Order(s)) : s.links[Order(s)[i]][1] = Order(s)[i - 1]                  \* prev links mirror next links

FreeListOK(s) ==
    IF s.count < CapT
    THEN LET fw == FreeWalk(s, s.vh, CapT + 1)
             occupied == {Order(s)[i] : i \in 1 .. Len(Order(s))}
         IN  /\ s.vh < CapT /\ s.vt < CapT
             \* (prev of the head / next of the tail are only ever read by assertions; TaskListT::clear() leaves them stale)
             /\ fw # <<>> /\ fw[Len(fw)] = s.vt
             /\ \A i \in 1 .. Len(fw) : fw[i] \notin occupied
             /\ \A i \in 1 .. Len(fw) : \A j \in 1 .. Len(fw) : i # j => fw[i] # fw[j]
             /\ Len(fw) = (IF s.last < CapT THEN s.last + 1 ELSE CapT) - s.count     \* every vacated or grown slot is reusable: nothing leaks
    ELSE s.vh = INV /\ s.vt = INV

-----------------------------------------------------------------------------
(* Model checking: every sequence of operations                             *)

VARIABLES s, lastop

Ops == {[op |-> "append", v |-> v, n |-> 0] : v \in Vals} \cup {[op |-> "remove", v |-> <<0, 0>>, n |-> n] : n \in 1 .. CapT}
       \cup {[op |-> "clear", v |-> <<0, 0>>, n |-> 0], [op |-> "dataclear", v |-> <<0, 0>>, n |-> 0]}
       \cup {[op |-> "sweep", v |-> <<0, 0>>, n |-> m] : m \in 1 .. (2 ^ CapT - 1)}

Apply(st, o) ==
    CASE o.op = "append"    -> PlanAppend(st, o.v)
      [] o.op = "remove"    -> [s |-> RemoveAtPos(st, o.n), r |-> TRUE]
      [] o.op = "clear"     -> [s |-> PlanClear(st), r |-> TRUE]
      [] o.op = "dataclear" -> [s |-> DataClear(st), r |-> TRUE]
      [] o.op = "sweep"     -> [s |-> Sweep(st, o.n).s, r |-> SweepVisitsAll(st, o.n)]

Enabled(st, o) == o.op = "remove" => o.n <= Len(st.abs)

Init == s = TLInit /\ lastop = [op |-> "init", v |-> <<0, 0>>, n |-> 0, r |-> TRUE]
Next == \E o \in Ops : Enabled(s, o) /\ LET a == Apply(s, o) IN s' = a.s /\ lastop' = [op |-> o.op, v |-> o.v, n |-> o.n, r |-> a.r]

InvRefines == Refines(s)
InvFreeList == FreeListOK(s)
InvCapacityExact == lastop.op = "append" => (lastop.r = TRUE) \/ (Len(s.abs) = CapT)
InvSweep == lastop.op = "sweep" => lastop.r = TRUE
InvAppendAtRoom == \A v \in Vals : (Len(s.abs) < CapT) = PlanAppend(s, v).r
W_FullThenReused == ~(s.count = CapT /\ s.last = CapT /\ lastop.op = "append" /\ Len(s.abs) = CapT /\ s.items[0] # <<INV, INV>> /\ s.first # 0)

StateView == s
Vals3 == {<<0, 0>>, <<0, 1>>, <<1, 0>>}
Vals2 == {<<0, 1>>, <<1, 1>>}
=============================================================================
