CONSTANTS
  N = 2
  L = 1
  Cap = 2
  HasHead = TRUE
  Manual = FALSE
  HasPay = FALSE
  HasPlans = TRUE
  HasSerial = FALSE
  HasHist = TRUE
  HasLog = FALSE
  Verbose = FALSE
  InjCnt <- NoInj
  DefMask <- AllDef
  MaxActs = 1
  WithMonitors = FALSE
  EnvOps <- PlanOpsQ
  EnvActs <- PlanActsQ
  EnvPoints <- PlanPointsQ
SPECIFICATION FairSpec
CHECK_DEADLOCK FALSE
INVARIANT TypeOK
INVARIANT RoundsBounded
PROPERTY Terminates
