CONSTANTS
  N = 4
  L = 3
  Cap = 3
  HasHead = TRUE
  Manual = TRUE
  HasPay = TRUE
  HasPlans = TRUE
  HasSerial = TRUE
  HasHist = TRUE
  HasLog = TRUE
  Verbose = FALSE
  InjCnt <- NoInj
  DefMask <- AllDef
  MaxActs = 2
  WithMonitors = TRUE
  EnvOps <- SimOps
  EnvActs <- SimActs
  EnvPoints <- AllPoints
INIT Init
NEXT Next
CHECK_DEADLOCK FALSE
INVARIANT TypeOK
INVARIANT MonitorsQuiet
INVARIANT RoundsBounded
INVARIANT IdleClean
INVARIANT ActivityConsistent
INVARIANT PlanWithinCapacity
