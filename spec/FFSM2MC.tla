------------------------------ MODULE FFSM2MC ------------------------------
(* Model-checking wrapper: the environment (API calls, callback decisions) is *)
(* an explicit \E over bounded sets given by the configuration.               *)
EXTENDS Monitors

CONSTANTS
    EnvOps,      \* set of API operation records offered by the environment
    EnvActs,     \* set of act records callbacks may perform
    EnvPoints,   \* set of <<callback, state>> pairs (state ANY = any scope) at which callbacks may act at all
    MaxActs      \* maximum number of acts per callback delivery

ANY == 999

VARIABLES st, out,
          tk, bad,      \* monitors folded over the events of the behaviour (ghost)
          lbl           \* the step as a script token (ghost; used to turn paths of the state graph into test scripts)

vars == <<st, out, tk, bad, lbl>>

CONSTANT WithMonitors   \* fold the monitors (costs states); FALSE keeps tk/bad constant

Tau == [e |-> "tau"]

ActSeqs(kind, sid) ==
    LET legal == {a \in EnvActs : ActLegal(kind, sid, a)} IN
    {<<>>} \cup (IF MaxActs >= 1 THEN {<<a>> : a \in legal} ELSE {})
           \cup (IF MaxActs >= 2 THEN {<<a, b>> : a \in legal, b \in legal} ELSE {})

Init == st = InitSt /\ out = Tau /\ tk = TkInit /\ bad = {} /\ lbl = "init"

ActStr(a) == CASE a.k = "T"  -> "T" \o ToString(a.a)
               [] a.k = "W"  -> "W" \o ToString(a.a) \o "." \o ToString(a.p)
               [] a.k = "X"  -> "X"
               [] a.k \in {"S", "F"} -> IF a.a = NONE THEN a.k ELSE a.k \o ToString(a.a)
               [] a.k = "PC" -> "PC" \o ToString(a.a) \o "." \o ToString(a.b)
               [] a.k = "PW" -> "PW" \o ToString(a.a) \o "." \o ToString(a.b) \o "." \o ToString(a.p)
               [] a.k = "PX" -> "PX"
               [] a.k = "PR" -> "PR" \o ToString(a.a)
RECURSIVE ActsStr(_, _)
ActsStr(acts, i) == IF i > Len(acts) THEN "" ELSE ActStr(acts[i]) \o (IF i < Len(acts) THEN "," ELSE "") \o ActsStr(acts, i + 1)

Fold == IF WithMonitors
        THEN LET j == Judge(tk, out') IN tk' = j.tk /\ bad' = bad \cup j.findings
        ELSE UNCHANGED <<tk, bad>>

DoCall == /\ Idle(st)
          /\ \E o \in EnvOps :
                /\ InContract(st, o)
                /\ LET res == CallStep(st, o) IN st' = res.st /\ out' = res.out
                /\ lbl' = "call|" \o o.op \o "|" \o ToString(o.a) \o "|" \o ToString(o.b) \o "|" \o ToString(o.p)

MayAct(f) == <<f.m, f.x>> \in EnvPoints \/ <<f.m, ANY>> \in EnvPoints \/ <<ANY, ANY>> \in EnvPoints

DoCb == /\ AtCallback(st)
        /\ \E acts \in (IF MayAct(Head(st.k)) THEN ActSeqs(CtrlKind(Head(st.k).m), Head(st.k).x) ELSE {<<>>}) :
              /\ LET res == CbStep(st, acts) IN st' = res.st /\ out' = res.out
              /\ lbl' = "cb|" \o ToString(Head(st.k).m) \o "." \o ToString(Head(st.k).s) \o "." \o ToString(Head(st.k).j) \o ":" \o ActsStr(acts, 1)

DoRet == /\ AtReturn(st)
         /\ LET res == RetStep(st) IN st' = res.st /\ out' = res.out
         /\ lbl' = "ret"

DoInternal == /\ AtInternal(st)
              /\ st' = Internal(st)
              /\ out' = Tau
              /\ lbl' = "tau"

Next == (DoCall \/ DoCb \/ DoRet \/ DoInternal) /\ Fold

Spec == Init /\ [][Next]_vars
FairSpec == Spec /\ WF_vars((DoCb \/ DoRet \/ DoInternal) /\ Fold)

StView == <<st, tk, bad>>

MonitorsQuiet == bad = {}

NoInj == [i \in 1 .. (N + 1) |-> 0]
AllDef == [i \in 1 .. (N + 1) |-> 32766]
A(k, a, b, p) == [k |-> k, a |-> a, b |-> b, p |-> p]
O(op) == Op(op, 0, 0, 0)
AllPoints == {<<ANY, ANY>>}

\* ---- environments (selected by the .cfg files)
SmokeOps == {O("ctor"), O("dtor"), O("update")} \cup {Op("ito", d, 0, 0) : d \in States} \cup {Op("pc", 0, 1, 0), Op("succeed", 0, 0, 0)}
SmokeActs == {A("T", d, 0, 0) : d \in States} \cup {A("X", 0, 0, 0), A("S", NONE, 0, 0)}

\* requests and guards: every request source, every guard decision over successive rounds
GuardOpsQ == {O("ctor"), O("dtor"), O("enter"), O("exit"), O("update"), Op("query", 1, 0, 0), Op("react", 1, 0, 0)} \cup {Op("ito", d, 0, 0) : d \in States}
TinyOps == {O("ctor"), O("dtor"), O("update"), Op("ito", 1, 0, 0)}
TourOps == {O("ctor"), O("dtor"), O("update"), Op("ito", 1, 0, 0), Op("to", 0, 0, 0)}
TourActs == {A("T", 0, 0, 0), A("T", 1, 0, 0), A("X", 0, 0, 0)}
TourPoints == {<<M_UPDATE, ANY>>, <<M_ENTRY_GUARD, ANY>>, <<M_EXIT_GUARD, ANY>>}
TourView == <<st, lbl>>
TinyActs == {A("T", 0, 0, 0), A("X", 0, 0, 0)}
GuardOps == {O("ctor"), O("dtor"), O("enter"), O("exit"), O("update")} \cup {Op("ito", d, 0, 0) : d \in States} \cup {Op("to", d, 0, 0) : d \in States}
GuardActs == {A("T", d, 0, 0) : d \in States} \cup {A("X", 0, 0, 0)}
GuardPoints == {<<M_UPDATE, ANY>>, <<M_ENTRY_GUARD, ANY>>, <<M_EXIT_GUARD, ANY>>}

\* plans: every plan content, status pattern, outcome
PlanOps == {O("ctor"), O("update"), O("px")} \cup {Op("pc", o, d, 0) : o \in States, d \in States}
           \cup {Op("succeed", s, 0, 0) : s \in States} \cup {Op("fail", s, 0, 0) : s \in States} \cup {Op("ito", d, 0, 0) : d \in States}
\* (the thorough configuration MC_plan: three states, the plans restricted to five of the nine tasks so that the run stays within minutes)
PlanOpsT == {O("ctor"), O("update"), O("px"), Op("pc", 0, 1, 0), Op("pc", 1, 2, 0), Op("pc", 2, 0, 0), Op("pc", 1, 1, 0), Op("pc", 0, 2, 0),
             Op("succeed", 0, 0, 0), Op("succeed", 1, 0, 0), Op("fail", 1, 0, 0), Op("ito", 1, 0, 0), Op("ito", 2, 0, 0)}
PlanActs == {A("S", NONE, 0, 0), A("F", NONE, 0, 0), A("X", 0, 0, 0)} \cup {A("S", s, 0, 0) : s \in States}
PlanPoints == {<<M_UPDATE, ANY>>, <<M_POST_UPDATE, NONE>>, <<M_ENTRY_GUARD, ANY>>}
PlanOpsQ == {O("ctor"), O("update")} \cup {Op("pc", o, d, 0) : o \in States, d \in States} \cup {Op("succeed", 0, 0, 0), Op("fail", 1, 0, 0), Op("ito", 1, 0, 0)}
PlanActsQ == {A("S", NONE, 0, 0), A("F", NONE, 0, 0), A("X", 0, 0, 0)}
PlanPointsQ == {<<M_UPDATE, ANY>>, <<M_ENTRY_GUARD, ANY>>}

\* plan editing: append, remove at a position, clear - from outside and from callbacks - up to and beyond the capacity
PlanEditOps == {O("ctor"), O("update"), O("px"), Op("pc", 0, 1, 0), Op("pc", 1, 0, 0), Op("pc", 1, 1, 0), Op("pr", 0, 0, 0), Op("pr", 1, 0, 0), Op("pr", 2, 0, 0), Op("ito", 1, 0, 0)}
PlanEditActs == {A("PC", 0, 0, 0), A("PR", 0, 0, 0), A("PR", 1, 0, 0), A("PX", 0, 0, 0)}
PlanEditPoints == {<<M_UPDATE, ANY>>, <<M_ENTER, ANY>>, <<M_EXIT, ANY>>}

\* plans across activations of a manual machine (what survives exit() / enter())
PlanManOps == {O("ctor"), O("enter"), O("exit"), O("update"), Op("pc", 0, 1, 0), Op("pc", 1, 1, 0), Op("succeed", 0, 0, 0), Op("fail", 0, 0, 0), Op("ito", 1, 0, 0), Op("to", 1, 0, 0)}
PlanManActs == {A("S", NONE, 0, 0), A("F", NONE, 0, 0), A("PC", 0, 1, 0)}
PlanManPoints == {<<M_UPDATE, ANY>>, <<M_ENTER, ANY>>}

\* manual activation, serialization, replay
SerialOps == {O("ctor"), O("dtor"), O("enter"), O("exit"), O("save"), O("update"), Op("rt", NONE, 0, 0)}
             \cup {Op("load", x, 0, 0) : x \in {0} \cup {1 + 2 * s : s \in States}}
             \cup {Op("rt", d, 0, 0) : d \in States} \cup {Op("re", d, 0, 0) : d \in States} \cup {Op("ito", d, 0, 0) : d \in States}
             \cup {Op("pc", 0, 1, 0), Op("to", 1, 0, 0)}
SerialActs == {A("T", d, 0, 0) : d \in States} \cup {A("X", 0, 0, 0), A("PC", 1, 0, 0)}
SerialPoints == {<<M_ENTRY_GUARD, ANY>>, <<M_ENTER, ANY>>, <<M_UPDATE, ANY>>}

\* payloads: payload-carrying and payload-free requests from every source
PayOps == {O("ctor"), O("update")} \cup {Op("iwith", d, 0, p) : d \in States, p \in 1 .. 2} \cup {Op("ito", d, 0, 0) : d \in States}
          \cup {Op("with", d, 0, p) : d \in States, p \in 1 .. 2} \cup {Op("pw", o, d, 1) : o \in States, d \in States} \cup {Op("succeed", s, 0, 0) : s \in States}
PayActs == {A("W", d, 0, 2) : d \in States} \cup {A("T", d, 0, 0) : d \in States} \cup {A("X", 0, 0, 0)}
PayPoints == {<<M_UPDATE, ANY>>, <<M_ENTRY_GUARD, ANY>>}
PayOpsQ == {O("ctor"), O("update"), Op("iwith", 1, 0, 1), Op("iwith", 0, 0, 2), Op("ito", 1, 0, 0), Op("with", 0, 0, 1), Op("pw", 0, 1, 1), Op("pw", 1, 0, 2), Op("succeed", 0, 0, 0), Op("succeed", 1, 0, 0)}
PayActsQ == {A("W", 0, 0, 2), A("W", 1, 0, 1), A("T", 1, 0, 0), A("X", 0, 0, 0)}

\* the unrestricted mix (simulation only: far too large to enumerate)
SimOps == {O("ctor"), Op("ctor", 0, 0, 1), O("dtor"), O("enter"), O("exit"), O("update"), Op("react", 1, 0, 0), Op("query", 2, 0, 0), O("save"), O("px"), O("obs"),
           Op("attach", 0, 0, 0), Op("attach", 1, 0, 0), Op("rt", NONE, 0, 0)}
          \cup {Op("ito", d, 0, 0) : d \in States} \cup {Op("to", d, 0, 0) : d \in States}
          \cup {Op("iwith", d, 0, p) : d \in States, p \in 1 .. 2} \cup {Op("with", d, 0, p) : d \in States, p \in 1 .. 2}
          \cup {Op("pc", o, d, 0) : o \in States, d \in States} \cup {Op("pw", o, d, 1) : o \in States, d \in States} \cup {Op("pr", i, 0, 0) : i \in 0 .. 2}
          \cup {Op("succeed", s, 0, 0) : s \in States} \cup {Op("fail", s, 0, 0) : s \in States}
          \cup {Op("load", x, 0, 0) : x \in {0} \cup {1 + 2 * s : s \in States}}
          \cup {Op("rt", d, 0, 0) : d \in States} \cup {Op("re", d, 0, 0) : d \in States}
SimActs == {A("T", d, 0, 0) : d \in States} \cup {A("W", d, 0, 2) : d \in States} \cup {A("X", 0, 0, 0), A("S", NONE, 0, 0), A("F", NONE, 0, 0), A("PX", 0, 0, 0), A("PR", 0, 0, 0)}
           \cup {A("S", s, 0, 0) : s \in States} \cup {A("F", s, 0, 0) : s \in States}
           \cup {A("PC", o, d, 0) : o \in States, d \in States} \cup {A("PW", o, d, 1) : o \in States, d \in States}
Inj1 == [i \in 1 .. (N + 1) |-> IF i = 1 THEN 1 ELSE IF i = 3 THEN 2 ELSE 0]

\* logging: attach / detach, sparse classes
LogOps == {O("ctor"), Op("ctor", 0, 0, 1), O("dtor"), O("update"), Op("react", 1, 0, 0), Op("query", 1, 0, 0), Op("attach", 0, 0, 0), Op("attach", 1, 0, 0)}
          \cup {Op("ito", d, 0, 0) : d \in States} \cup {Op("pc", 0, 1, 0), Op("succeed", 0, 0, 0), Op("fail", 0, 0, 0)}
LogActs == {A("T", 1, 0, 0), A("X", 0, 0, 0), A("S", NONE, 0, 0), A("F", NONE, 0, 0), A("F", 1, 0, 0), A("S", 0, 0, 0)}
LogPoints == {<<M_UPDATE, ANY>>, <<M_ENTRY_GUARD, ANY>>, <<M_REACT, ANY>>}
SparseDef == [i \in 1 .. (N + 1) |-> IF i = 1 THEN 18450 ELSE IF i = 2 THEN 32766 ELSE IF i = 3 THEN 2084 ELSE 0]
\* injections x plans: reports (for the reporter itself and for another state) made by injections and by the classes themselves, before
\* and after each other within one delivery; plan outcomes delivered through the root's injection
InjPlanOps == {O("ctor"), O("update"), Op("react", 1, 0, 0), Op("pc", 0, 1, 0), Op("pc", 1, 0, 0), Op("ito", 1, 0, 0)}
InjPlanActs == {A("S", NONE, 0, 0), A("F", NONE, 0, 0), A("F", 1, 0, 0), A("S", 0, 0, 0), A("PX", 0, 0, 0)}
InjPlanPoints == {<<M_UPDATE, ANY>>, <<M_POST_UPDATE, ANY>>, <<M_POST_REACT, ANY>>}
Inj2 == [i \in 1 .. (N + 1) |-> IF i = 1 THEN 1 ELSE IF i = 2 THEN 2 ELSE IF i = 3 THEN 1 ELSE 0]

-----------------------------------------------------------------------------
(* Reachability witnesses: each must be VIOLATED (the situation it negates is *)
(* reachable), otherwise the invariants above would hold vacuously.           *)
W_FailForAnotherState  == ~(tk.outcome = 2 /\ tk.repF /\ tk.act0 = 0 /\ tk.sawF = {1})   \* planFailed after the active state reported another state's failure
W_Deactivated          == ~(tk.op = "dtor" /\ ~tk.incall /\ ~tk.alive)
W_ReenterByLoad        == ~(tk.op = "load" /\ \E s \in States : tk.life = <<<<M_REENTER, s>>>>)
W_LaterRequestReplaces == ~(IsProcOp(tk.op) /\ ~tk.incall /\ tk.rounds >= 2 /\ tk.surv # NoT /\ Cardinality(tk.passed) >= 2)
W_ReenterApplied       == ~(IsProcOp(tk.op) /\ \E s \in States : tk.life = <<<<M_REENTER, s>>>>)
W_VetoAfterRedirect    == ~(IsProcOp(tk.op) /\ tk.rounds >= 2 /\ tk.inround /\ tk.rcancel /\ tk.surv # NoT)
W_ExitGuardCancels     == ~(IsProcOp(tk.op) /\ tk.inround /\ tk.rcancel /\ tk.dm = M_EXIT_GUARD /\ tk.dpos > 0)
W_LimitLeftover        == ~(st.k # <<>> /\ Head(st.k).t = "pr_fin" /\ st.rounds = L /\ st.request # NoT)
W_RequestInPhase       == ~(tk.stage = "phase" /\ tk.lastreq # NoT)
W_GuardSeesAccepted    == ~(AtCallback(st) /\ Head(st.k).m \in {M_ENTRY_GUARD, M_EXIT_GUARD} /\ st.cur # NoT)
W_TaskPayloadPending   == ~(st.pend # NoT /\ st.pend[3] # 0 /\ st.pend[1] # NONE)
W_TaskFired            == ~(tk.fired # <<>>)
W_Origin0Ahead         == ~(st.k # <<>> /\ Head(st.k).t = "planstep" /\ Len(st.plan) >= 2 /\ st.plan[1][1] = 0 /\ st.active \notin {0, NONE}
                            /\ st.active \in st.succ /\ st.plan[2][1] = st.active)
W_PlanFailed           == ~(tk.outcome = 2)
W_PlanSucceeded        == ~(tk.outcome = 1)
W_PlanFull             == ~(Len(st.plan) = Cap)
W_Replayed             == ~(tk.op = "rt" /\ ~tk.incall /\ tk.oa # NONE /\ Len(tk.life) = 2)
W_LoadDeactivates      == ~(tk.op = "load" /\ ~tk.incall /\ tk.oa = 0 /\ tk.life # <<>>)
W_InjectedExit         == ~(AtCallback(st) /\ Head(st.k).m = M_EXIT /\ Head(st.k).j = 2)
W_LoggedCancel         == ~(st.logger /\ st.cancelled)

\* every call returns (checked under weak fairness of the library's own steps and the callbacks' returns)
Terminates == ~Idle(st) ~> Idle(st)

\* direct state invariants
RoundsBounded == st.rounds <= L
IdleClean == Idle(st) => st.requested = NONE /\ st.pend = NoT /\ st.sub = 0 /\ st.pendlog = <<>>
ActivityConsistent == Idle(st) => (st.active # NONE => st.alive) /\ (~Manual /\ st.alive => st.active # NONE)
PlanWithinCapacity == Len(st.plan) <= Cap
PrevNamesActive == Idle(st) /\ st.prev # NoT /\ st.active # NONE => st.prev[2] = st.active \/ tk.op \in PassiveOps

-----------------------------------------------------------------------------
TypeOK ==
    /\ st.active \in States \cup {NONE}
    /\ st.requested \in States \cup {NONE}
    /\ st.rounds \in 0 .. L
    /\ st.sub \in 0 .. 2 /\ st.ts \in 0 .. 2
    /\ Len(st.plan) <= Cap
    /\ st.succ \subseteq States /\ st.fail \subseteq States

=============================================================================
