CONSTANTS
  N <- TrN
  L <- TrL
  Cap <- TrCap
  HasHead <- TrHasHead
  Manual <- TrManual
  HasPay <- TrHasPay
  HasPlans <- TrHasPlans
  HasSerial <- TrHasSerial
  HasHist <- TrHasHist
  HasLog <- TrHasLog
  Verbose <- TrVerbose
  InjCnt <- TrInjCnt
  DefMask <- TrDefMask
INIT TInit
NEXT TNext
CHECK_DEADLOCK FALSE
