"""Shared machinery for the FFSM2 verification checks: paths, hashing, build cache, TLC runners."""
import hashlib
import json
import os
import re
import shutil
import subprocess
import sys
import time
from concurrent.futures import ThreadPoolExecutor

VERIF = os.path.dirname(os.path.dirname(os.path.abspath(__file__)))
REPO = os.environ.get("VERIF_REPO", "/repo")
SPEC = os.path.join(VERIF, "spec")
HARNESS = os.path.join(VERIF, "harness")
WORK = os.environ.get("VERIF_WORK", os.path.join(VERIF, "work"))
BUILD = os.path.join(VERIF, "build")
# evidence describes /repo itself: a run against another tree (VERIF_REPO=<scratch copy with a change applied>) keeps its files with its work
EVIDENCE = os.path.join(VERIF, "evidence") if os.path.realpath(REPO) == "/repo" else os.path.join(WORK, "evidence")
TLA_JAR = "/opt/veriftools/tla/tla2tools.jar"
TLA_CP = TLA_JAR + ":/opt/veriftools/tla/CommunityModules-deps.jar"
NCPU = os.cpu_count() or 4
CXX = os.environ.get("VERIF_CXX", "g++")


def sha(*parts):
    h = hashlib.sha256()
    for p in parts:
        if isinstance(p, str):
            p = p.encode()
        h.update(p)
        h.update(b"\0")
    return h.hexdigest()[:16]


def file_hash(paths):
    h = hashlib.sha256()
    for p in sorted(paths):
        h.update(p.encode())
        try:
            with open(p, "rb") as f:
                h.update(f.read())
        except OSError:
            h.update(b"<missing>")
    return h.hexdigest()[:16]


def tree_files(root, exts=None):
    out = []
    for d, _, fs in os.walk(root):
        for f in fs:
            if exts is None or os.path.splitext(f)[1] in exts:
                out.append(os.path.join(d, f))
    return out


_repo_hash = None


def repo_hash():
    """hash of everything in the repository that the harness compiles against (current working tree)"""
    global _repo_hash
    if _repo_hash is None:
        files = tree_files(os.path.join(REPO, "include")) + tree_files(os.path.join(REPO, "development"))
        files.append(os.path.join(REPO, "tools", "join.py"))
        _repo_hash = file_hash(files)
    return _repo_hash


def harness_hash():
    return file_hash(tree_files(HARNESS))


_spec_hash = None


def spec_hash():
    global _spec_hash
    if _spec_hash is None:
        _spec_hash = file_hash(tree_files(SPEC, {".tla", ".cfg"}))
    return _spec_hash


def ensure(d):
    os.makedirs(d, exist_ok=True)
    return d


def log(*a):
    print(*a, flush=True)


# ----------------------------------------------------------------------------- build cache

FEATURE_FLAGS = {
    "P": "-DFFSM2_ENABLE_PLANS", "S": "-DFFSM2_ENABLE_SERIALIZATION", "H": "-DFFSM2_ENABLE_TRANSITION_HISTORY",
    "G": "-DFFSM2_ENABLE_LOG_INTERFACE", "V": "-DFFSM2_ENABLE_VERBOSE_DEBUG_LOG", "R": "-DFFSM2_ENABLE_STRUCTURE_REPORT",
    "D": "-DFFSM2_ENABLE_DEBUG_STATE_TYPE", "T": "-DFFSM2_DISABLE_TYPEINDEX", "A": "-DFFSM2_ENABLE_ALL",
}


def profile_flags(p):
    """p: dict with keys N,L,cap,head,manual,pay,ctx,inj(root,s0,s1,last),defmode,dev,feat(str of letters),std,cxx"""
    fl = ["-DVH_N=%d" % p.get("N", 3), "-DVH_L=%d" % p.get("L", 2), "-DVH_CAP=%d" % p.get("cap", 0),
          "-DVH_HEAD=%d" % p.get("head", 1), "-DVH_MANUAL=%d" % p.get("manual", 0), "-DVH_PAY=%d" % p.get("pay", 0),
          "-DVH_CTX=%d" % p.get("ctx", 0), "-DVH_DEFMODE=%d" % p.get("defmode", 0), "-DVH_DEV=%d" % p.get("dev", 0),
          "-DVH_CFGORDER=%d" % p.get("cfgorder", 0), "-DVH_VIRT=%d" % p.get("virt", 0), "-DVH_CONSTCB=%d" % p.get("constcb", 0)]
    inj = p.get("inj", (0, 0, 0, 0))
    fl += ["-DVH_INJ_ROOT=%d" % inj[0], "-DVH_INJ_S0=%d" % inj[1], "-DVH_INJ_S1=%d" % inj[2], "-DVH_INJ_LAST=%d" % inj[3]]
    fl += [FEATURE_FLAGS[c] for c in p.get("feat", "PSHG")]
    fl += p.get("extra", [])
    return fl


def build_profile(name, p, main="main.cpp"):
    """compile the harness for profile p against REPO's current working tree; returns (binary path | None, log)"""
    flags = profile_flags(p)
    cxx = p.get("cxx", CXX)
    std = p.get("std", "c++11")
    key = sha(repo_hash(), harness_hash(), cxx, std, main, *flags)
    d = ensure(os.path.join(BUILD, key))
    exe = os.path.join(d, name)
    logf = exe + ".log"
    if os.path.exists(exe) and os.path.exists(logf):
        return exe, open(logf).read()
    if os.path.exists(logf) and not os.path.exists(exe):
        return None, open(logf).read()
    cmd = [cxx, "-std=" + std, "-O0", "-w", "-DFFSM2_VERIF", "-I", os.path.join(REPO, "include"), "-I", os.path.join(REPO, "development"),
           "-I", HARNESS] + flags + [os.path.join(HARNESS, main), "-o", exe + ".tmp"]
    r = subprocess.run(cmd, stdout=subprocess.PIPE, stderr=subprocess.STDOUT, universal_newlines=True)
    with open(logf, "w") as f:
        f.write(" ".join(cmd) + "\n" + r.stdout)
    if r.returncode != 0 and "-DVH_COMPAT=1" not in flags and main == "main.cpp":
        # a rarely used API form does not compile / link: fall back to the basic forms so that the rest can still be checked;
        # the failure itself is kept in the log (first line COMPAT-FALLBACK) and reported by the checks it concerns
        r2 = subprocess.run(cmd[:-2] + ["-DVH_COMPAT=1"] + cmd[-2:], stdout=subprocess.PIPE, stderr=subprocess.STDOUT, universal_newlines=True)
        if r2.returncode == 0:
            os.rename(exe + ".tmp", exe)
            text = "COMPAT-FALLBACK\n" + " ".join(cmd) + "\n" + r.stdout
            with open(logf, "w") as f:
                f.write(text)
            return exe, text
    if r.returncode != 0:
        return None, r.stdout
    os.rename(exe + ".tmp", exe)
    return exe, r.stdout


def build_many(profiles, main="main.cpp", jobs=None):
    """profiles: dict name -> profile dict; returns dict name -> (exe|None, log)"""
    out = {}
    with ThreadPoolExecutor(max_workers=jobs or NCPU) as ex:
        futs = {n: ex.submit(build_profile, n, p, main) for n, p in profiles.items()}
        for n, f in futs.items():
            out[n] = f.result()
    return out


def prune_build_cache(keep_hash=None):
    """remove build directories not made from the current tree (the cache key includes the tree hash, so stale ones are garbage)"""
    if not os.path.isdir(BUILD):
        return
    entries = sorted(((os.path.getmtime(os.path.join(BUILD, e)), e) for e in os.listdir(BUILD)), reverse=True)
    for _, e in entries[160:]:
        shutil.rmtree(os.path.join(BUILD, e), ignore_errors=True)


# ----------------------------------------------------------------------------- harness runs

def run_harness(exe, script_text, trace_path, timeout=120):
    ensure(os.path.dirname(trace_path))
    try:
        r = subprocess.run([exe, "-", trace_path], input=script_text, universal_newlines=True, stdout=subprocess.PIPE,
                           stderr=subprocess.STDOUT, timeout=timeout * 30 + 60, env=dict(os.environ, VH_ALARM=str(max(5, timeout - 5))))   # (VH_ALARM: seconds of processor time)
        return r.returncode, r.stdout
    except subprocess.TimeoutExpired:
        return -9, "timeout"


# ----------------------------------------------------------------------------- TLC

def java_cmd(heap="4g", parallel_gc=False):
    return ["java", "-XX:+UseParallelGC" if parallel_gc else "-XX:+UseSerialGC", "-Xmx" + heap, "-Xss64m", "-cp", TLA_CP, "tlc2.TLC"]


_TLC_TUPLE = re.compile(r"<<\s*\"(TRACE-ACCEPTED|TRACE-REJECTED|MONITOR-FINDINGS|COMP-[A-Z-]+)\"")


def _collect_printed(out):
    """TLC pretty-prints long PrintT values over several lines; glue each printed tuple back together"""
    res, cur, depth = [], None, 0
    for line in out.splitlines():
        if cur is None:
            if _TLC_TUPLE.match(line.strip()):
                cur, depth = "", 0
            else:
                continue
        cur += " " + line.strip()
        depth += line.count("<<") - line.count(">>")
        if depth <= 0:
            res.append(re.sub(r"\s+", " ", cur).strip())
            cur = None
    return res


def run_tlc(module, cfg, metadir, env=None, workers=1, heap="4g", timeout=1800, extra=None, cwd=SPEC):
    ensure(metadir)
    cmd = java_cmd(heap, workers != 1) + ["-workers", str(workers), "-noGenerateSpecTE", "-metadir", metadir, "-config", cfg] + (extra or []) + [module]
    t0 = time.time()
    try:
        r = subprocess.run(cmd, cwd=cwd, env=dict(os.environ, **(env or {})), stdout=subprocess.PIPE, stderr=subprocess.STDOUT,
                           universal_newlines=True, timeout=timeout)
        out, rc = r.stdout, r.returncode
    except subprocess.TimeoutExpired as e:
        so = e.stdout or ""
        if isinstance(so, bytes):
            so = so.decode("utf-8", "replace")
        out, rc = so + "\nTIMEOUT", -9
    shutil.rmtree(metadir, ignore_errors=True)
    return rc, out, time.time() - t0


def parse_mc(out):
    """-> dict(states, distinct, depth, ok, violated)"""
    res = {"generated": 0, "distinct": 0, "depth": 0, "ok": "Model checking completed. No error has been found." in out, "violated": None}
    m = re.search(r"(\d+) states generated, (\d+) distinct states found", out)
    if m:
        res["generated"], res["distinct"] = int(m.group(1)), int(m.group(2))
    m = re.search(r"depth of the complete state graph search is (\d+)", out)
    if m:
        res["depth"] = int(m.group(1))
    m = re.search(r"Invariant (\w+) is violated|Temporal properties were violated|Action property (\w+) is violated", out)
    if m:
        res["violated"] = m.group(1) or m.group(2) or "temporal"
    return res


def parse_tuple_strings(s):
    return re.findall(r'"((?:[^"\\]|\\.)*)"', s)


def parse_trace_result(out):
    """-> dict(accepted, rejected: None | dict(line, why, detail), findings: list of (prop, line, why), error)"""
    res = {"accepted": False, "rejected": [], "findings": [], "error": None, "lines": 0}
    printed = _collect_printed(out)
    got = False
    for p in printed:
        if p.startswith('<< "TRACE-ACCEPTED"') or p.startswith('<<"TRACE-ACCEPTED"'):
            res["accepted"] = True
            got = True
            m = re.search(r"(\d+)\s*>>", p)
            if m:
                res["lines"] = int(m.group(1))
        elif "TRACE-REJECTED" in p[:24]:
            got = True
            m = re.match(r'<<\s*"TRACE-REJECTED",\s*(\d+),\s*"([^"]*)"', p)
            res["rejected"].append({"line": int(m.group(1)) if m else 0, "why": m.group(2) if m else "?", "detail": p[:3000]})
        elif "MONITOR-FINDINGS" in p[:26]:
            for m in re.finditer(r'<<\s*"(C\d+)",\s*(\d+),\s*"([^"]*)"\s*>>', p):
                res["findings"].append((m.group(1), int(m.group(2)), m.group(3)))
    if not got or "MONITOR-FINDINGS" not in out:
        res["error"] = out[-3000:]
    return res


def validate_trace(tlc_trace_path, tag):
    """run conformance + monitors over a prepared trace file"""
    rc, out, secs = run_tlc("FFSM2Trace.tla", "FFSM2Trace.cfg", os.path.join(WORK, "meta", tag), env={"TRACE": tlc_trace_path},
                            workers=1, heap="6g", timeout=3000)
    res = parse_trace_result(out)
    res["secs"] = round(secs, 1)
    return res


def _split_executions(path):
    """-> (header lines before the first cfg (none expected), list of executions, each a list of lines starting with its cfg line)"""
    execs, cur = [], None
    with open(path) as f:
        for line in f:
            if line.startswith('{"e":"cfg"'):
                cur = [line]
                execs.append(cur)
            elif cur is not None:
                cur.append(line)
    return execs


def validate_robust(path, tag, validator, max_runs=40):
    """validate a trace file; if TLC fails while evaluating it (an execution so far from anything the specification or the
    monitors expect that an operator is applied outside its domain), bisect: the remaining executions are still judged,
    the uninterpretable ones are listed in res['uninterpretable'] (line numbers refer to the original file)"""
    res = validator(path, tag)
    if not res.get("error") or "TIMEOUT" in (res.get("error") or "")[-200:]:
        res["uninterpretable"] = []
        return res
    execs = _split_executions(path)
    if len(execs) <= 1:
        res["uninterpretable"] = [1] if execs else []
        return res
    starts, n = [], 1
    for ex in execs:
        starts.append(n)
        n += len(ex)
    out = {"accepted": True, "rejected": [], "findings": [], "error": None, "lines": 0, "secs": res.get("secs", 0), "uninterpretable": []}
    runs = [0]

    def go(lo, hi):
        if runs[0] >= max_runs:
            out["uninterpretable"].append(starts[lo])
            return
        runs[0] += 1
        part = "%s.part%d_%d" % (path, lo, hi)
        with open(part, "w") as f:
            for ex in execs[lo:hi]:
                f.writelines(ex)
        r = validator(part, "%s.p%d_%d" % (tag, lo, hi))
        os.remove(part)
        out["secs"] += r.get("secs", 0)
        if r.get("error"):
            if hi - lo == 1:
                out["uninterpretable"].append(starts[lo])
                out["accepted"] = False
                return
            mid = (lo + hi) // 2
            go(lo, mid)
            go(mid, hi)
            return
        off = starts[lo] - 1
        out["accepted"] = out["accepted"] and r.get("accepted", True)
        for rj in r.get("rejected", []):
            out["rejected"].append(dict(rj, line=rj["line"] + off))
        for (p_, ln, why) in r.get("findings", []):
            if not any(f[0] == p_ for f in out["findings"]):
                out["findings"].append((p_, ln + off, why))
    mid = len(execs) // 2
    go(0, mid)
    go(mid, len(execs))
    out["secs"] = round(out["secs"], 1)
    return out


def validate_cross(merged_trace_path, tag):
    """cross-instance monitors (lanes / copies, replica, save-load) over a merged trace"""
    rc, out, secs = run_tlc("CrossTrace.tla", "CrossTrace.cfg", os.path.join(WORK, "meta", tag), env={"TRACE": merged_trace_path},
                            workers=1, heap="6g", timeout=3000)
    res = {"findings": [], "error": None, "secs": round(secs, 1)}
    got = False
    for p in _collect_printed(out):
        if "MONITOR-FINDINGS" in p[:26]:
            got = True
            for m in re.finditer(r'<<\s*"(C\d+)",\s*(\d+),\s*"([^"]*)"\s*>>', p):
                res["findings"].append((m.group(1), int(m.group(2)), m.group(3)))
    if not got:
        res["error"] = out[-3000:]
    return res


# ----------------------------------------------------------------------------- evidence

def write_evidence(prop, tier, seed, level, coverage, wall_s, violations, assumptions=None):
    ensure(EVIDENCE)
    ev = {"property_id": prop, "tier": tier, "seed": seed, "level": level, "coverage": coverage,
          "assumptions": assumptions or [], "wall_s": round(wall_s, 2), "violations": violations}
    tmp = os.path.join(EVIDENCE, prop + ".json.tmp")
    with open(tmp, "w") as f:
        json.dump(ev, f, indent=1, sort_keys=True)
    os.replace(tmp, os.path.join(EVIDENCE, prop + ".json"))
    return ev
