"""Per-property decision procedures: which model-checking configurations, which pool, which monitor,
which property-specific machinery; verdict, replay directories, evidence files."""
import json
import os
import shutil
import time

import mc
import pool
import traceprep
import vlib

KNOWN = os.path.join(vlib.VERIF, "known_findings.json")

# quick / thorough exhaustive configurations of FFSM2MC per property, reachability witnesses (must be reached)
PROPS = {
    "C01": dict(mc_q=["MC_guards_q", "MC_serial"], mc_t=["MC_guards", "MC_peer", "MC_serial", "MC_plan_q"], wit=[("MC_serial", "W_ReenterByLoad"), ("MC_guards_q", "W_Deactivated")]),
    "C02": dict(mc_q=["MC_guards_q"], mc_t=["MC_guards", "MC_peer", "MC_plan_q"], wit=[("MC_guards_q", "W_LaterRequestReplaces"), ("MC_guards_q", "W_ReenterApplied")]),
    "C03": dict(mc_q=["MC_guards_q"], mc_t=["MC_guards", "MC_peer"], wit=[("MC_guards_q", "W_VetoAfterRedirect"), ("MC_guards_q", "W_ExitGuardCancels")]),
    "C04": dict(mc_q=["MC_guards_q", "MC_live", "MC_live_plan"], mc_t=["MC_guards", "MC_peer", "MC_live", "MC_live_plan"], wit=[("MC_guards_q", "W_LimitLeftover")]),
    "C05": dict(mc_q=["MC_guards_q"], mc_t=["MC_guards", "MC_plan_q"], wit=[("MC_guards_q", "W_RequestInPhase")]),
    "C06": dict(mc_q=["MC_guards_q", "MC_payload_q"], mc_t=["MC_guards", "MC_payload"], wit=[("MC_guards_q", "W_GuardSeesAccepted")]),
    "C07": dict(mc_q=["MC_payload_q"], mc_t=["MC_payload"], wit=[("MC_payload_q", "W_TaskPayloadPending")]),
    "C08": dict(mc_q=["MC_plan_q", "MC_planman"], mc_t=["MC_plan", "MC_planman"], wit=[("MC_plan_q", "W_TaskFired"), ("MC_plan_q", "W_Origin0Ahead")]),
    "C09": dict(mc_q=["MC_plan_q", "MC_planman", "MC_injplan"], mc_t=["MC_plan", "MC_planman", "MC_injplan"],
                wit=[("MC_plan_q", "W_PlanFailed"), ("MC_plan_q", "W_PlanSucceeded"), ("MC_injplan", "W_FailForAnotherState")]),
    "C10": dict(mc_q=["MC_plan_q", "MC_planedit"], mc_t=["MC_plan", "MC_planedit"], wit=[("MC_plan_q", "W_PlanFull")]),
    "C13": dict(mc_q=[], mc_t=[], wit=[], pool=False),
    "C20": dict(mc_q=[], mc_t=[], wit=[], pool=False),
    "C11": dict(mc_q=["MC_guards_q", "MC_serial"], mc_t=["MC_guards", "MC_serial", "MC_serial3"], wit=[("MC_serial", "W_Replayed")]),
    "C12": dict(mc_q=["MC_serial", "MC_serial3"], mc_t=["MC_serial", "MC_serial3"], wit=[("MC_serial", "W_LoadDeactivates")]),
    "C14": dict(mc_q=["MC_guards_q"], mc_t=["MC_guards"], wit=[]),
    "C19": dict(mc_q=["MC_guards_q"], mc_t=["MC_guards"], wit=[], pool=False),
    "C15": dict(mc_q=["MC_inj"], mc_t=["MC_inj", "MC_injplan"], wit=[("MC_inj", "W_InjectedExit")]),
    "C16": dict(mc_q=["MC_log", "MC_logv"], mc_t=["MC_log", "MC_logv"], wit=[("MC_log", "W_LoggedCancel")]),
    "C17": dict(mc_q=["MC_guards_q"], mc_t=["MC_guards"], wit=[]),
}


def load_known():
    try:
        with open(KNOWN) as f:
            return json.load(f)
    except (OSError, ValueError):
        return {"fixed": [], "known": []}


def setup():
    """offline setup: check the tools, prune caches; nothing from /repo is built here"""
    ok = True
    for tool in ("java", vlib.CXX, "python3"):
        if shutil.which(tool) is None:
            print("missing tool:", tool)
            ok = False
    if not os.path.exists(vlib.TLA_JAR):
        print("missing", vlib.TLA_JAR)
        ok = False
    rc, out, _ = vlib.run_tlc("FFSM2MC.tla", "MC_tiny.cfg", os.path.join(vlib.WORK, "meta", "setup"), workers=2, heap="2g", timeout=300)
    if "Model checking completed. No error has been found." not in out:
        print("TLC smoke run failed:\n" + out[-2000:])
        ok = False
    vlib.prune_build_cache()
    pool.prune_pool_cache()
    print("setup", "ok" if ok else "FAILED")
    return 0 if ok else 2


# ----------------------------------------------------------------------------- replay directories

def write_replay(prop, idx, profile_name, profile, run, finding, poolres):
    d = os.path.join(vlib.EVIDENCE, "replays", prop, str(idx))
    shutil.rmtree(d, ignore_errors=True)
    vlib.ensure(d)
    shutil.copy(run["script"], os.path.join(d, "script.txt"))
    shutil.copy(run["raw"], os.path.join(d, "trace.raw.ndjson"))
    shutil.copy(run["trace"], os.path.join(d, "trace.tlc.ndjson"))
    ln = finding[1]
    ctx = []
    src = run["trace"]
    if finding[2].endswith("[merged trace]"):
        src = run["merged"]
    elif "[twin trace" in finding[2]:
        src = run.get("twin", {}).get("trace", run["trace"])
        shutil.copy(src, os.path.join(d, "trace.twin.ndjson"))
    with open(src) as f:
        for n, line in enumerate(f, 1):
            if ln - 12 <= n <= ln + 2:
                ctx.append("%d: %s" % (n, line.rstrip()[:600]))
    with open(os.path.join(d, "finding.json"), "w") as f:
        json.dump({"property": prop, "profile": profile_name, "profile_def": profile, "flags": vlib.profile_flags(profile),
                   "finding": {"line": finding[1], "why": finding[2]}, "context": ctx,
                   "repo_hash": poolres.get("repo_hash"), "how": "bin/check replay " + d}, f, indent=1)
    return d


def replay(d):
    with open(os.path.join(d, "finding.json")) as f:
        fj = json.load(f)
    prop, pname, prof = fj["property"], fj["profile"], fj["profile_def"]
    if fj.get("kind") == "api_form":
        exe, blog = vlib.build_profile(pname, prof)
        if exe is not None and not blog.startswith("COMPAT-FALLBACK"):
            print("not reproduced: every API form builds for profile", pname)
            return 0
        print(blog[-1500:])
        print("VIOLATION property=%s replay=%s" % (prop, d))
        return 1
    if fj.get("kind") == "component":
        import components
        return components.replay(d, fj)
    exe, blog = vlib.build_profile(pname, prof)
    if exe is None:
        print("harness does not build for profile", pname, "\n", blog[-1500:])
        return 2
    work = vlib.ensure(os.path.join(vlib.WORK, "replay"))
    raw = os.path.join(work, "raw.ndjson")
    tl = os.path.join(work, "tlc.ndjson")
    vlib.run_harness(exe, open(os.path.join(d, "script.txt")).read(), raw, timeout=300)
    traceprep.write_for_tlc(raw, tl)
    v = vlib.validate_trace(tl, "replay")
    ml = os.path.join(work, "merged.ndjson")
    traceprep.write_for_tlc(raw, ml, merged=True)
    x = vlib.validate_cross(ml, "replayx")
    v["findings"] += x["findings"]
    v["error"] = v["error"] or x["error"]
    for rj in v["rejected"][:3]:
        print("CONFORMANCE-DRIFT line=%d %s" % (rj["line"], rj["why"]))
    hit = [f for f in v["findings"] if f[0] == prop]
    for f in v["findings"]:
        print("FINDING property=%s line=%d %s" % f)
    if v["error"]:
        print(v["error"][-1500:])
        return 2
    if hit:
        print("VIOLATION property=%s replay=%s" % (prop, d))
        return 1
    print("not reproduced: property %s holds on this trace" % prop)
    return 0


# ----------------------------------------------------------------------------- the generic check

def _sample_execution(path, max_events=14):
    """first execution of a prepared trace, abbreviated, as an evidence sample"""
    out = []
    try:
        with open(path) as f:
            for line in f:
                e = json.loads(line)
                if e["e"] == "cfg" and out:
                    break
                if e["e"] == "cfg":
                    out.append({"cfg": {k: e[k] for k in ("N", "L", "cap", "head", "manual", "pay")}})
                elif e["e"] == "call":
                    out.append("call %s(%s,%s,%s)" % (e["op"], e["a"], e["b"], e["p"]))
                elif e["e"] == "cb":
                    out.append("cb m=%d s=%d j=%d acts=%s" % (e["m"], e["s"], e["j"], [(a["k"], a["a"], a["b"], a["p"], a["r"]) for a in e["acts"]]))
                elif e["e"] == "ret":
                    out.append("ret %s r=%s act=%s prev=%s plan=%s" % (e["op"], e["r"], e["act"], e["prev"], e["plan"]))
                if len(out) >= max_events:
                    break
    except (OSError, ValueError):
        pass
    return out


def check(prop, tier, seed):
    t0 = time.time()
    spec = PROPS[prop]
    known = load_known()
    infra = []
    # 1. the specification: exhaustive configurations with every monitor folded in; reachability witnesses
    mcs = []
    for name in (spec["mc_q"] if tier == "quick" else spec["mc_t"]):
        r = mc.run_config(name)
        mcs.append(r)
        vlib.log("MC %-14s distinct=%d generated=%d depth=%d %.0fs%s %s" % (name, r["distinct"], r["generated"], r["depth"], r["secs"],
                 " (cached)" if r.get("cached") else "", "ok" if r["ok"] else "FAILED"))
        if not r["ok"]:
            infra.append("model checking of %s failed: %s" % (name, r.get("violated") or r.get("error", "")[-800:]))
    sims = []
    if tier == "thorough" and spec.get("pool", True):
        # the unrestricted environment at larger constants cannot be enumerated: random simulation with every monitor folded in
        for name in ("SIM_mix", "SIM_peer", "SIM_sparse"):
            s = mc.run_simulate(name, 150, seed)
            sims.append(s)
            vlib.log("SIM %-11s states=%d traces=%d %.0fs %s" % (name, s["states_checked"], s["traces"], s["secs"], "ok" if s["ok"] else "FAILED"))
            if not s["ok"]:
                infra.append("simulation of %s failed: %s" % (name, s.get("violated") or s.get("error", "")[-800:]))
    wits = []
    for cfgname, inv in spec["wit"]:
        w = mc.witness(cfgname, inv)
        wits.append({"config": cfgname, "witness": inv, "reached": w["reached"]})
        vlib.log("WITNESS %-28s in %-12s %s" % (inv, cfgname, "reached" if w["reached"] else "NOT REACHED"))
        if not w["reached"]:
            infra.append("vacuity: witness %s not reachable in %s" % (inv, cfgname))
    # 2. the implementation: pool of profiles x scenarios, conformance + monitors
    if spec.get("pool", True):
        pres = pool.run_pool(tier, seed)
        vlib.log("POOL key=%s %s wall=%ss" % (pres["key"], "(cached)" if pres.get("cached") else "", pres.get("wall_s")))
    else:
        pres = {"profiles": {}, "cached": False}
    findings, drift, nexec, nevents, accepted_exec = [], [], 0, 0, 0
    sample = None
    api_findings = []
    sweep_findings = []
    for pname, pr in pres["profiles"].items():
        if not pr["built"]:
            infra.append("harness does not build for profile %s: %s" % (pname, pr["build_log"][-600:]))
            continue
        if pr.get("compat"):
            # a rarely used API form does not compile / link on this tree (the pool ran on the fallback build with the basic forms)
            for p_, what in pr.get("api_findings", []):
                if p_ == prop and not any(a[0] == what for a in api_findings):
                    api_findings.append((what, pname, pr["build_log"]))
            vlib.log("API-FORM %s: a rarely used API form does not build (%s); basic forms used instead" % (
                pname, ("attributed to " + ",".join(sorted({a[0] for a in pr["api_findings"]}))) if pr.get("api_findings") else "reported under C19"))
        if pr["validation"]["error"]:
            infra.append("TLC failed on the traces of %s: %s" % (pname, pr["validation"]["error"][-600:]))
        for sname, run in pr["runs"].items():
            nexec += run["executions"]
            nevents += run["events"]
            if not run["rejected"]:
                accepted_exec += run["executions"]
                if sample is None and sname == "guards":
                    sample = _sample_execution(run["trace"])
            for rj in run["rejected"]:
                drift.append("%s.%s line %d: %s" % (pname, sname, rj["line"], rj["why"]))
            for f in run["findings"]:
                if f[0] == prop:
                    findings.append((pname, sname, run, f))
    # 2b. the state-count sweep (shared with C14, cached per tree): this property's monitor at 25 (quick) / 255 (thorough) state counts
    sweep_cov = {}
    if spec.get("pool", True) and prop != "C14":
        sw = matrix.extra_c14(tier, seed)
        for i in sw.get("infra", []):
            infra.append("state-count sweep: " + i)
        sweep_cov = {"sweep_state_counts": sw.get("coverage", {}).get("state_counts_swept", []), "sweep_events": sw.get("coverage", {}).get("sweep_events", 0)}
        seenN = set()
        for of in sw.get("other_findings", []):
            if of["property"] != prop or of["N"] in seenN or len(seenN) >= 3:
                continue
            seenN.add(of["N"])
            d = of["replay"]
            shutil.rmtree(d, ignore_errors=True)
            vlib.ensure(d)
            for src, dst in ((of["script"], "script.txt"), (of["trace"], "trace.tlc.ndjson")):
                if os.path.exists(src):
                    shutil.copy(src, os.path.join(d, dst))
            with open(os.path.join(d, "finding.json"), "w") as f:
                json.dump({"property": prop, "profile": "n%d" % of["N"], "profile_def": of["profile_def"], "finding": {"line": of["line"], "why": of["why"]},
                           "how": "bin/check replay " + d}, f, indent=1)
            sweep_findings.append({"what": "N=%d (state-count sweep) line %d: %s" % (of["N"], of["line"], of["why"]), "signature": "sweep N=%d %s" % (of["N"], of["why"][:60]), "replay": d})
    # 3. property-specific machinery
    extra_cov, extra_findings = {}, []
    if prop in EXTRA:
        ex = EXTRA[prop](tier, seed)
        extra_cov = ex.get("coverage", {})
        extra_findings = ex.get("findings", [])
        infra += ex.get("infra", [])
    # 4. verdict
    for dline in drift[:8]:
        vlib.log("CONFORMANCE-DRIFT " + dline)
    violations = 0
    replays = []
    knownlist = known.get("known", [])
    for idx, (pname, sname, run, f) in enumerate(findings[:5]):
        sig = "%s %s" % (pname, f[2])
        if any(k.get("property") == prop and k.get("signature") == sig for k in knownlist):
            vlib.log("KNOWN-FINDING: property=%s %s" % (prop, sig))
            continue
        d = write_replay(prop, idx, pname, pool.PROFILES[pname], run, f, pres)
        vlib.log("FINDING property=%s profile=%s scenario=%s line=%d: %s" % (prop, pname, sname, f[1], f[2]))
        vlib.log("VIOLATION property=%s replay=%s" % (prop, d))
        violations += 1
        replays.append(d)
    for what, pname, blog in api_findings:
        d = os.path.join(vlib.EVIDENCE, "replays", prop, "api_%s" % pname)
        shutil.rmtree(d, ignore_errors=True)
        vlib.ensure(d)
        with open(os.path.join(d, "build.log"), "w") as f:
            f.write(blog)
        with open(os.path.join(d, "finding.json"), "w") as f:
            json.dump({"property": prop, "profile": pname, "profile_def": pool.PROFILES[pname], "kind": "api_form", "finding": {"why": what},
                       "how": "bin/check replay " + d}, f, indent=1)
        vlib.log("FINDING property=%s profile=%s: %s" % (prop, pname, what))
        vlib.log("VIOLATION property=%s replay=%s" % (prop, d))
        violations += 1
    for idx, ef in enumerate((sweep_findings + extra_findings)[:6]):
        if any(k.get("property") == prop and k.get("signature") == ef.get("signature") for k in knownlist):
            vlib.log("KNOWN-FINDING: property=%s %s" % (prop, ef.get("signature")))
            continue
        vlib.log("FINDING property=%s %s" % (prop, ef.get("what")))
        vlib.log("VIOLATION property=%s replay=%s" % (prop, ef.get("replay")))
        violations += 1
    # 5. evidence
    cov = {
        "states": sum(r["distinct"] for r in mcs) + extra_cov.pop("states", 0),
        "transitions": sum(r["generated"] for r in mcs) + extra_cov.pop("transitions", 0),
        "traces_validated_against_impl": accepted_exec + extra_cov.pop("traces_validated_against_impl", 0),
        "samples": ([{"implementation_trace": sample}] if sample else []) + extra_cov.pop("samples", []) +
                   [{"model_checking_config": r["config"], "distinct_states": r["distinct"], "depth": r["depth"]} for r in mcs],
        "exhaustive": all(r["ok"] for r in mcs) and bool(mcs),
        "model_checking": [{"config": r["config"], "distinct": r["distinct"], "generated": r["generated"], "depth": r["depth"],
                            "secs": r["secs"], "ok": r["ok"], "fresh_run": not r.get("cached", False)} for r in mcs],
        "witnesses_reached": wits,
        "simulation": [{k: s[k] for k in ("config", "states_checked", "traces", "secs", "ok")} for s in sims],
        "implementation_executions": nexec + extra_cov.pop("implementation_executions", 0),
        "implementation_events": nevents + extra_cov.pop("implementation_events", 0),
        "profiles": sorted(pres["profiles"].keys()),
        "conformance_drift": drift[:20],
        "monitor": ("Monitors.tla checks tagged " + prop) if spec.get("pool", True) else "CompTrace.tla",
        "pool_fresh_run": not pres.get("cached", False),
        # specification -> code: behaviours TLC generated from FFSM2.tla (simulation export, tours) that were replayed on the implementation
        "spec_behaviours_replayed_on_impl": sum(pr["runs"].get(fam, {}).get("executions", 0) for pr in pres["profiles"].values() if pr.get("built") for fam in ("specsim", "tour")),
        "scenario_families": sorted({fam for pr in pres["profiles"].values() if pr.get("built") for fam in pr["runs"]}),
        "api_form_fallback_builds": sorted(n for n, pr in pres["profiles"].items() if pr.get("compat")),
    }
    cov.update(extra_cov)
    cov.update(sweep_cov)
    vlib.write_evidence(prop, tier, seed, LEVEL.get(prop, "model_checking"), cov, time.time() - t0, violations,
                        assumptions=ASSUME.get(prop, []) + COMMON_ASSUME)
    if infra:
        for i in infra:
            vlib.log("INFRASTRUCTURE: " + i)
    if violations:
        return 1
    if infra:
        return 2
    vlib.log("OK property=%s tier=%s executions=%d events=%d mc_states=%d wall=%.0fs" % (prop, tier, cov["implementation_executions"], cov["implementation_events"], cov["states"], time.time() - t0))
    return 0


COMMON_ASSUME = [
    "TLC explores the listed configurations completely; other constants are reached only through conformance of recorded traces",
    "the harness observes the machine through its public API only; state that the API does not expose is inferred by the deterministic specification",
    "g++ -O0 builds of the harness against /repo's current working tree (include/ and development/)",
]
ASSUME = {}
LEVEL = {}
import components  # noqa: E402
import matrix  # noqa: E402
EXTRA = {"C10": components.extra_c10, "C13": components.extra_c13, "C20": components.extra_c20, "C14": matrix.extra_c14, "C19": matrix.extra_c19}

# properties whose property-specific machinery is not finished yet (not claimed in MANIFEST.json)
NOT_YET = set()
NA_REASON = {
    "C18": "absence of undefined behaviour and of heap allocation is a property of the C++ abstract machine (bounds, alignment, indeterminate reads), not of any state a TLA+ specification can describe; deciding it needs sanitizers / static analysis, i.e. a different technique (DESIGN.md section 8)",
}
