CONSTANTS
  N = 4
  L = 3
  Cap = 3
  HasHead = TRUE
  Manual = TRUE
  HasPay = TRUE
  HasPlans = TRUE
  HasSerial = TRUE
  HasHist = TRUE
  HasLog = TRUE
  Verbose = FALSE
  InjCnt <- NoInj
  DefMask <- AllDef
  MaxActs = 2
  WithMonitors = FALSE
  EnvOps <- SimOps
  EnvActs <- SimActs
  EnvPoints <- AllPoints
INIT SimInit
NEXT SimNext
CHECK_DEADLOCK FALSE
CONSTANT ExportDepth = 160
CONSTRAINT Export
INVARIANT TypeOK
CONSTANT ActPct = 40
