"""Self-test of the framework (not registered as a property check).

  bin/check selftest [--only name[,name]] [--suite] [--seeded]

For every mutant (a small source change to the library that breaks one property) a scratch copy of the
repository is made OUTSIDE /repo and /verif, the change is applied to the development sources, the single
header is regenerated with tools/join.py, the pool is run against the copy and the findings per property are
compared with what the mutant is expected to break.  --suite additionally builds and runs the repository's
own test suite on the mutated copy (it is expected to pass: that is why the tests cannot settle the property).
--seeded uses the patches kept under /verif/seeded/ instead of the built-in list.
"""
import json
import os
import shutil
import subprocess
import sys
import tempfile
import time

import vlib

MUTANTS = os.path.join(vlib.VERIF, "mutants", "mutants.json")


def make_scratch():
    d = tempfile.mkdtemp(prefix="ffsm2_selftest_", dir=os.environ.get("VERIF_SCRATCH", "/tmp"))
    repo = os.path.join(d, "repo")
    os.makedirs(repo)
    for sub in ("include", "development", "tools", "test", "external", "CMakeLists.txt"):
        src = os.path.join("/repo", sub)
        if os.path.isdir(src):
            shutil.copytree(src, os.path.join(repo, sub))
        elif os.path.exists(src):
            shutil.copy(src, os.path.join(repo, sub))
    return d, repo


def apply_mutant(repo, m):
    for ed in m["edits"]:
        p = os.path.join(repo, ed["file"])
        with open(p, encoding="utf-8") as f:
            s = f.read()
        if s.count(ed["old"]) != ed.get("count", 1):
            raise RuntimeError("mutant %s: pattern occurs %d times in %s" % (m["name"], s.count(ed["old"]), ed["file"]))
        s = s.replace(ed["old"], ed["new"])
        with open(p, "w", encoding="utf-8") as f:
            f.write(s)
    subprocess.run([sys.executable, "join.py"], cwd=os.path.join(repo, "tools"), check=True)


def apply_patch(repo, patch):
    subprocess.run(["patch", "-p1", "-s", "-i", patch], cwd=repo, check=True)


def run_suite(repo):
    b = os.path.join(repo, "_build")
    r = subprocess.run(["cmake", "-G", "Ninja", "-S", repo, "-B", b], stdout=subprocess.PIPE, stderr=subprocess.STDOUT, universal_newlines=True)
    r = subprocess.run(["cmake", "--build", b], stdout=subprocess.PIPE, stderr=subprocess.STDOUT, universal_newlines=True)
    ok = r.returncode == 0 and "Status: SUCCESS" in r.stdout
    return ok, r.stdout[-600:]


def pool_findings(repo, work, tier="quick", seed=1, extra_props=()):
    """run the pool (and the property-specific machinery named in extra_props) against `repo' in a subprocess"""
    code = (
        "import sys, json; sys.path.insert(0, %r); import pool, props\n"
        "res = pool.run_pool(%r, %d)\n"
        "out = {'findings': {}, 'drift': 0, 'build_failed': [], 'errors': []}\n"
        "for n, p in res['profiles'].items():\n"
        "    if not p['built']:\n"
        "        out['build_failed'].append(n); continue\n"
        "    if p['validation']['error']: out['errors'].append(n + ': ' + p['validation']['error'][-300:])\n"
        "    for a in p.get('api_findings', []): out['findings'].setdefault(a[0], []).append('%%s: %%s' %% (n, a[1]))\n"
        "    for s, r in p['runs'].items():\n"
        "        out['drift'] += len(r['rejected'])\n"
        "        for f in r['findings']:\n"
        "            out['findings'].setdefault(f[0], []).append('%%s.%%s:%%d %%s' %% (n, s, f[1], f[2]))\n"
        "import matrix\n"
        "sw = matrix.extra_c14(%r, %d)\n"
        "for of in sw.get('other_findings', []): out['findings'].setdefault(of['property'], []).append('sweep N=%%d: %%s' %% (of['N'], of['why']))\n"
        "for f in sw.get('findings', []): out['findings'].setdefault('C14', []).append('sweep: ' + str(f.get('what')))\n"
        "for p in %r:\n"
        "    if p in props.EXTRA and p != 'C14':\n"
        "        ex = props.EXTRA[p](%r, %d)\n"
        "        for f in ex.get('findings', []):\n"
        "            out['findings'].setdefault(p, []).append('extra: ' + str(f.get('what')))\n"
        "        for i in ex.get('infra', []): out['errors'].append(p + ': ' + i[-300:])\n"
        "print('RESULT ' + json.dumps(out))\n"
    ) % (os.path.join(vlib.VERIF, "lib"), tier, seed, tier, seed, list(extra_props), tier, seed)
    env = dict(os.environ, VERIF_REPO=repo, VERIF_WORK=work)
    r = subprocess.run([sys.executable, "-c", code], env=env, stdout=subprocess.PIPE, stderr=subprocess.STDOUT, universal_newlines=True)
    for line in r.stdout.splitlines():
        if line.startswith("RESULT "):
            return json.loads(line[7:])
    return {"findings": {}, "drift": 0, "build_failed": [], "errors": [r.stdout[-1500:]]}


def main(argv):
    only = None
    if "--only" in argv:
        only = set(argv[argv.index("--only") + 1].split(","))
    with_suite = "--suite" in argv
    with open(MUTANTS) as f:
        muts = json.load(f)
    if "--seeded" in argv:
        muts = []
        sd = os.path.join(vlib.VERIF, "seeded")
        for name in sorted(os.listdir(sd)) if os.path.isdir(sd) else []:
            mj = os.path.join(sd, name, "meta.json")
            if os.path.exists(mj):
                meta = json.load(open(mj))
                muts.append({"name": name, "patch": os.path.join(sd, name, "patch.diff"), "breaks": [meta["property"]], "note": meta.get("needs", "")})
    rows = []
    bad = 0
    for m in muts:
        if only and m["name"] not in only:
            continue
        t0 = time.time()
        d, repo = make_scratch()
        try:
            if "patch" in m:
                apply_patch(repo, m["patch"])
                if os.path.isdir(os.path.join(repo, "tools")) and not m.get("no_join"):
                    pass
            else:
                apply_mutant(repo, m)
            suite = run_suite(repo) if with_suite else (None, "")
            res = pool_findings(repo, os.path.join(d, "work"), extra_props=m.get("extra", m["breaks"] or (["C10", "C13", "C20"] if m.get("benign") else [])))
        finally:
            shutil.rmtree(d, ignore_errors=True)
        found = sorted(res["findings"].keys())
        missed = [p for p in m["breaks"] if p not in found]
        unexpected = [p for p in found if p not in m["breaks"] and p not in m.get("also", [])]
        status = "caught" if not missed else "MISSED"
        if m.get("benign"):     # a change no property forbids: any finding is a false alarm (conformance drift is expected and fine)
            status = "quiet" if not found else "FALSE-ALARM"
            missed = found
        if missed:
            bad += 1
        print("%-28s %-7s breaks=%s found=%s%s drift=%d%s %.0fs" % (
            m["name"], status, ",".join(m["breaks"]), ",".join(found) or "-",
            (" UNEXPECTED=" + ",".join(unexpected)) if unexpected else "", res["drift"],
            "" if suite[0] is None else (" suite=" + ("pass" if suite[0] else "FAIL")), time.time() - t0), flush=True)
        for p in found:
            print("      %s: %s" % (p, res["findings"][p][0][:200]))
        if res["build_failed"]:
            print("      build failed for", res["build_failed"])
        for e in res["errors"][:2]:
            print("      error:", e[:400])
        rows.append({"name": m["name"], "breaks": m["breaks"], "found": found, "unexpected": unexpected, "drift": res["drift"],
                     "suite": suite[0], "build_failed": res["build_failed"]})
    with open(os.path.join(vlib.ensure(vlib.WORK), "selftest.json"), "w") as f:
        json.dump(rows, f, indent=1)
    # results accumulate: rows of this run replace the rows of the same name
    dest = os.path.join(vlib.VERIF, "seeded" if "--seeded" in argv else "mutants", "results.json")
    old = []
    try:
        with open(dest) as f:
            old = json.load(f).get("rows", [])
    except (OSError, ValueError):
        pass
    names = {r["name"] for r in rows}
    known = {m["name"] for m in muts}
    head = subprocess.run(["git", "-C", vlib.VERIF, "rev-parse", "--short", "HEAD"], stdout=subprocess.PIPE, universal_newlines=True).stdout.strip()
    for r in rows:
        r["verif_commit"] = head
    merged = sorted([r for r in old if r["name"] not in names and r["name"] in known] + rows, key=lambda r: r["name"])
    with open(dest, "w") as f:
        json.dump({"tier": "quick", "seed": 1, "rows": merged}, f, indent=1)
    print("selftest: %d mutants, %d missed" % (len(rows), bad))
    return 1 if bad else 0
