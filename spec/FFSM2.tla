------------------------------- MODULE FFSM2 -------------------------------
(***************************************************************************)
(* Specification of one FFSM2 machine instance (andrew-gresyk/FFSM2):      *)
(* a flat state machine with N peer states, an optional root head state,   *)
(* guarded transitions with a substitution limit, task plans, transition   *)
(* history / replay, serialization of the activity state, and logging.     *)
(*                                                                         *)
(* The specification is laid out like the implementation.  Control flow is *)
(* a continuation stack st.k of frames; one TLA+ step is                   *)
(*   - the begin of a public API call            (event "call"),           *)
(*   - one delivery of a user callback together with the control           *)
(*     operations the user code performs in it   (event "cb"),             *)
(*   - the return of the API call                (event "ret"),            *)
(*   - or one internal step of the library (frame on top of st.k that is   *)
(*     not a callback): loop head of the substitution loop, end of a guard *)
(*     round, applying the accepted transition, the plan step, ...         *)
(* The environment - which API call comes next and what each callback      *)
(* does - is the only nondeterminism.  Every event step stores in `out'    *)
(* the record that the conformance harness logs for that step (same        *)
(* vocabulary), so the same specification is used for model checking,      *)
(* for validating recorded traces and for generating test tours.           *)
(***************************************************************************)
EXTENDS Naturals, Sequences, FiniteSets, TLC

CONSTANTS
    N,          \* number of states (ids 0..N-1)
    L,          \* substitution limit
    Cap,        \* task capacity
    HasHead,    \* the root has a head state class
    Manual,     \* manual activation (enter()/exit()) instead of constructor/destructor
    HasPay,     \* transitions can carry payloads
    HasPlans, HasSerial, HasHist, HasLog, Verbose,      \* feature switches
    InjCnt,     \* sequence of length N+1: number of injections of the root (index 1) and of state i (index i+2)
    DefMask     \* sequence of length N+1: bit m set iff that class itself defines callback m

NONE == 255
NoT  == <<255, 255, 0>>          \* empty transition  <<origin, destination, payload token>>
States == 0 .. (N - 1)

\* callback ids = ffsm2::Method
M_ENTRY_GUARD == 1   M_ENTER == 2        M_REENTER == 3      M_PRE_UPDATE == 4
M_UPDATE == 5        M_POST_UPDATE == 6  M_PRE_REACT == 7    M_REACT == 8
M_QUERY == 9         M_POST_REACT == 10  M_EXIT_GUARD == 11  M_EXIT == 12
M_PLAN_SUCCEEDED == 13                   M_PLAN_FAILED == 14

Max(a, b) == IF a > b THEN a ELSE b

RECURSIVE Pow2(_)
Pow2(n) == IF n = 0 THEN 1 ELSE 2 * Pow2(n - 1)
RECURSIVE BitLen(_)
BitLen(v) == IF v = 0 THEN 0 ELSE 1 + BitLen(v \div 2)      \* ffsm2::detail::bitWidth
WidthBits == BitLen(N)

Bit(mask, m) == (mask \div Pow2(m)) % 2 = 1
ClassIdx(s) == IF s = NONE THEN 1 ELSE s + 2
\* (total: an id that names no class - possible only in a trace recorded from a defective implementation - defines nothing)
KnownClass(s) == (s = NONE /\ HasHead) \/ (s # NONE /\ s \in States)
Defines(s, m) == IF KnownClass(s) THEN Bit(DefMask[ClassIdx(s)], m) ELSE FALSE
Injections(s) == IF KnownClass(s) THEN InjCnt[ClassIdx(s)] ELSE 0
\* non-verbose logging records a delivery iff &Head::method is not EmptyT's own
\* (the react family and query are cast to Head's member-pointer type before logging, so they are always recorded)
LogDefined(s, m) == IF ~KnownClass(s) THEN FALSE
                    ELSE Defines(s, m) \/ Injections(s) >= 1 \/ m \in {M_PRE_REACT, M_REACT, M_POST_REACT, M_QUERY}

\* control flavour handed to callback m: 0 const, 1 plan, 2 full, 3 guard
CtrlKind(m) == CASE m \in {M_QUERY} -> 0
                 [] m \in {M_ENTER, M_REENTER, M_EXIT} -> 1
                 [] m \in {M_ENTRY_GUARD, M_EXIT_GUARD} -> 3
                 [] OTHER -> 2

Rev(s) == [i \in 1 .. Len(s) |-> s[Len(s) + 1 - i]]
UpTo(k) == [i \in 1 .. k |-> i]

\* order in which the injections (1..k) and the class itself (0) receive callback m
SubOrder(m, s) ==
    LET k   == Injections(s)
        own == IF Defines(s, m) THEN <<0>> ELSE <<>>
    IN  CASE m \in {M_PLAN_SUCCEEDED, M_PLAN_FAILED}          -> own
          [] m \in {M_POST_UPDATE, M_POST_REACT, M_EXIT}       -> own \o Rev(UpTo(k))
          [] m = M_EXIT_GUARD                                   -> Rev(UpTo(k)) \o own
          [] m = M_QUERY                                        -> own \o UpTo(k)
          [] OTHER                                              -> UpTo(k) \o own

Fr(t, m, s, j, x) == [t |-> t, m |-> m, s |-> s, j |-> j, x |-> x]
F0(t) == Fr(t, 0, NONE, 0, 0)
D(m, s) == Fr("D", m, s, 0, 0)

NoCall == [op |-> "", a |-> 0, b |-> 0, p |-> 0]

InitSt == [
    alive      |-> FALSE,
    active     |-> NONE,
    requested  |-> NONE,
    request    |-> NoT,
    prev       |-> NoT,
    plan       |-> <<>>,
    succ       |-> {},
    fail       |-> {},
    planExists |-> FALSE,
    logger     |-> FALSE,
    \* locals of the running call
    call       |-> NoCall,
    r          |-> 0,
    cur        |-> NoT,
    pend       |-> NoT,
    cancelled  |-> FALSE,
    gres       |-> FALSE,
    rounds     |-> 0,
    sub        |-> 0,
    ts         |-> 0,
    k          |-> <<>>,
    pendlog    |-> <<>> ]

-----------------------------------------------------------------------------
(* Plan operations (abstract: a sequence of tasks; the free list behind it  *)
(* is specified separately in TaskList.tla)                                 *)

RemoveAt(s, i) == [j \in 1 .. (Len(s) - 1) |-> IF j < i THEN s[j] ELSE s[j + 1]]

\* result of scanning the plan in the plan step: tasks of the active state at the front fire while it
\* has an outstanding success; a cyclic task consumes the success at once, the others after the scan
RECURSIVE Scan(_, _, _, _, _, _, _)
Scan(tasks, i, act, succ, keep, req, acc) ==
    \* acc = <<fired log records, toClear>>
    IF i > Len(tasks) \/ tasks[i][1] # act
    THEN [plan |-> keep \o SubSeq(tasks, i, Len(tasks)), req |-> req, succ |-> succ \ acc[2], logs |-> acc[1]]
    ELSE LET t == tasks[i] IN
         IF t[1] \in succ
         THEN Scan(tasks, i + 1, act,
                   IF t[1] = t[2] THEN succ \ {t[1]} ELSE succ,
                   keep, <<t[1], t[2], t[3]>>,
                   <<Append(acc[1], <<"t", t[1], t[2]>>), IF t[1] = t[2] THEN acc[2] ELSE acc[2] \cup {t[1]}>>)
         ELSE Scan(tasks, i + 1, act, succ, Append(keep, t), req, acc)

-----------------------------------------------------------------------------
(* Control operations performed by user code inside one callback            *)

\* act record: [k, a, b, p]; result: [st, res] where res = [r, lg]
ApplyAct(st, f, a) ==
    LET sid == f.s
        lg(rec) == IF st.logger THEN <<rec>> ELSE <<>>
    IN  CASE a.k = "T"  -> [st |-> [st EXCEPT !.request = <<sid, a.a, 0>>], r |-> 0, lg |-> lg(<<"t", sid, a.a>>)]
          [] a.k = "W"  -> [st |-> [st EXCEPT !.request = <<sid, a.a, a.p>>], r |-> 0, lg |-> lg(<<"t", sid, a.a>>)]
          [] a.k = "X"  -> [st |-> [st EXCEPT !.cancelled = TRUE], r |-> 0, lg |-> lg(<<"c", sid, 0>>)]
          [] a.k = "S"  -> LET tg == IF a.a = NONE THEN sid ELSE a.a IN
                           [st |-> [st EXCEPT !.ts = 1, !.succ = @ \cup {tg}], r |-> 0, lg |-> lg(<<"s", tg, 0>>)]
          [] a.k = "F"  -> LET tg == IF a.a = NONE THEN sid ELSE a.a IN
                           [st |-> [st EXCEPT !.ts = 2, !.fail = @ \cup {tg}], r |-> 0, lg |-> lg(<<"s", tg, 1>>)]
          [] a.k = "PC" -> IF Len(st.plan) < Cap
                           THEN [st |-> [st EXCEPT !.plan = Append(@, <<a.a, a.b, 0>>), !.planExists = TRUE], r |-> 1, lg |-> <<>>]
                           ELSE [st |-> st, r |-> 0, lg |-> <<>>]
          [] a.k = "PW" -> IF Len(st.plan) < Cap
                           THEN [st |-> [st EXCEPT !.plan = Append(@, <<a.a, a.b, a.p>>), !.planExists = TRUE], r |-> 1, lg |-> <<>>]
                           ELSE [st |-> [st EXCEPT !.planExists = TRUE], r |-> 0, lg |-> <<>>]
          [] a.k = "PX" -> [st |-> [st EXCEPT !.plan = <<>>, !.succ = {}, !.fail = {}], r |-> 0, lg |-> <<>>]
          [] a.k = "PR" -> IF a.a < Len(st.plan)
                           THEN [st |-> [st EXCEPT !.plan = RemoveAt(@, a.a + 1)], r |-> 1, lg |-> <<>>]
                           ELSE [st |-> st, r |-> 0, lg |-> <<>>]

RECURSIVE ApplyActs(_, _, _, _, _)
ApplyActs(st, f, acts, i, done) ==
    IF i > Len(acts) THEN [st |-> st, acts |-> done]
    ELSE LET res == ApplyAct(st, f, acts[i]) IN
         ApplyActs(res.st, f, acts, i + 1,
                   Append(done, [k |-> acts[i].k, a |-> acts[i].a, b |-> acts[i].b, p |-> acts[i].p, r |-> res.r, lg |-> res.lg]))

\* an act is legal for control flavour kind (and, for the no-argument succeed()/fail(), only in a state's own scope)
ActLegal(kind, sid, a) ==
    /\ kind >= 1
    /\ a.k \in {"PC", "PW", "PX", "PR"} => HasPlans
    /\ a.k \in {"PW", "W"} => HasPay
    /\ a.k \in {"T", "W", "S", "F"} => kind >= 2
    /\ a.k \in {"S", "F"} => HasPlans /\ (a.a = NONE => sid # NONE)
    /\ a.k = "X" => kind = 3

ActiveSet(st) == IF st.active = NONE THEN <<>> ELSE <<st.active>>

CbEvent(st, f, doneActs) ==
    LET kind == CtrlKind(f.m) IN
    [ e    |-> "cb", m |-> f.m, s |-> f.s, j |-> f.j,
      pre  |-> st.pendlog,
      sid  |-> f.x,
      cact |-> ActiveSet(st), mact |-> st.active, mia |-> ActiveSet(st),
      ctx  |-> 1, self |-> 1,
      ev   |-> IF f.m \in {M_PRE_REACT, M_REACT, M_POST_REACT, M_QUERY} THEN 1 ELSE 0 - 1,
      req  |-> st.request,
      cprev |-> st.prev,
      cur  |-> IF kind = 0 THEN NoT ELSE st.cur,
      pend |-> IF kind = 3 THEN st.pend ELSE NoT,
      plan |-> IF kind = 0 THEN <<>> ELSE st.plan,
      pfl  |-> 1,           \* the plan's other forms (mutable iterator, first(), last(), emptiness test) agree with that sequence
      acts |-> doneActs,
      pfl2 |-> 1,           \* a const view of the plan taken before the acts still describes the plan after them
      mact2 |-> st.active ]

\* deliver callback frame f = Head(st.k), the user code performing `acts`
CbStep(st, acts) ==
    LET f   == Head(st.k)
        fo  == [f EXCEPT !.s = f.x]         \* scope (origin) of the delivery
        res == ApplyActs([st EXCEPT !.pendlog = <<>>], fo, acts, 1, <<>>)
    IN  [st |-> [res.st EXCEPT !.k = Tail(st.k)], out |-> CbEvent(st, f, res.acts)]

-----------------------------------------------------------------------------
(* Internal steps of the library                                            *)

Push(st, frames) == [st EXCEPT !.k = frames \o Tail(st.k)]

\* PlanT::clear(): every task, every success / failure flag
PlanCleared(st) == [st EXCEPT !.plan = <<>>, !.succ = {}, !.fail = {}]
\* PlanDataT::clear()
PlanDataCleared(st) == [st EXCEPT !.plan = <<>>, !.succ = {}, !.fail = {}, !.planExists = FALSE, !.sub = 0]

StatusBits(st) == IF st.active \in st.fail THEN 2 ELSE IF st.active \in st.succ THEN 1 ELSE 0

Internal(st) ==
    LET f == Head(st.k)
        t == f.t
    IN
    CASE t = "D" ->        \* S_::deepX(control): log record, scoped origin, injections and the class itself, post-processing
            LET logs == IF st.logger /\ (Verbose \/ LogDefined(f.s, f.m)) THEN <<<<"m", f.s, f.m>>>> ELSE <<>>
                ord  == SubOrder(f.m, f.s)
                cbs  == [i \in 1 .. Len(ord) |-> Fr("cb", f.m, f.s, ord[i], f.s)]
            IN  [Push(st, cbs \o <<Fr("post", f.m, f.s, 0, IF st.cancelled THEN 1 ELSE 0)>>) EXCEPT !.pendlog = @ \o logs]
      [] t = "post" ->
            LET s1 == Push(st, <<>>) IN
            CASE f.m \in {M_ENTRY_GUARD, M_EXIT_GUARD} ->
                    [s1 EXCEPT !.gres = (f.x = 0) /\ st.cancelled]
              [] f.m \in {M_PRE_UPDATE, M_UPDATE, M_POST_UPDATE, M_PRE_REACT, M_REACT, M_POST_REACT} ->
                    IF f.s = NONE THEN s1 ELSE [s1 EXCEPT !.sub = Max(@, st.ts)]
              [] f.m = M_EXIT ->
                    IF f.s = NONE THEN s1 ELSE [s1 EXCEPT !.succ = @ \ {f.s}, !.fail = @ \ {f.s}]
              [] OTHER -> s1
      [] t = "region_end" ->       \* ~ScopedRegion: the control's task status is reset
            [Push(st, <<>>) EXCEPT !.ts = 0]

      \* ---- activation: R_::initialEnter()
      [] t = "ie" ->
            Push([st EXCEPT !.requested = 0, !.cur = NoT, !.pend = NoT, !.cancelled = FALSE, !.gres = FALSE, !.rounds = 0],
                 <<D(M_ENTRY_GUARD, NONE), F0("ie_g0")>>)
      [] t = "ie_g0" ->     \* C_::deepEntryGuard: head || sub (short-circuit)
            IF st.gres THEN Push(st, <<F0("ie_loop")>>)
            ELSE Push(st, <<D(M_ENTRY_GUARD, st.requested), F0("ie_loop")>>)
      [] t = "ie_loop" ->
            IF st.rounds < L /\ st.request # NoT
            THEN IF st.cur # <<NONE, st.request[2], 0>>          \* applyRequest()
                 THEN Push([st EXCEPT !.requested = st.request[2], !.pend = st.request, !.request = NoT,
                                      !.cancelled = FALSE, !.gres = FALSE],
                           <<D(M_ENTRY_GUARD, NONE), F0("ie_g1")>>)
                 ELSE Push([st EXCEPT !.request = NoT, !.rounds = @ + 1], <<F0("ie_loop")>>)
            ELSE Push(st, <<F0("ie_fin")>>)
      [] t = "ie_g1" ->
            IF st.gres THEN Push(st, <<F0("ie_round")>>)
            ELSE Push(st, <<D(M_ENTRY_GUARD, st.requested), F0("ie_round")>>)
      [] t = "ie_round" ->
            IF st.gres
            THEN Push([st EXCEPT !.requested = IF st.cur # NoT THEN st.cur[2] ELSE 0, !.pend = NoT, !.rounds = @ + 1], <<F0("ie_loop")>>)
            ELSE Push([st EXCEPT !.cur = st.pend, !.pend = NoT, !.rounds = @ + 1], <<F0("ie_loop")>>)
      [] t = "ie_fin" ->
            Push([st EXCEPT !.prev = IF HasHist THEN st.cur ELSE NoT], <<F0("deep_enter"), F0("clrreq")>>)
      [] t = "deep_enter" ->    \* C_::deepEnter
            Push([st EXCEPT !.active = st.requested, !.requested = NONE],
                 <<D(M_ENTER, NONE), D(M_ENTER, st.requested)>>)
      [] t = "clrreq" ->
            [Push(st, <<>>) EXCEPT !.requested = NONE]

      \* ---- deactivation: R_::finalExit()
      [] t = "fx" ->
            Push(st, <<D(M_EXIT, st.active), D(M_EXIT, NONE), F0("fx_end")>>)
      [] t = "fx_end" ->
            PlanDataCleared([Push(st, <<>>) EXCEPT !.active = NONE, !.requested = NONE, !.request = NoT, !.prev = NoT])

      \* ---- R_::processRequest() / processTransitions()
      [] t = "pr" ->
            IF st.request # NoT
            THEN Push([st EXCEPT !.cur = NoT, !.pend = NoT, !.rounds = 0], <<F0("pr_loop")>>)
            ELSE Push([st EXCEPT !.cur = NoT], <<F0("pr_end")>>)
      [] t = "pr_loop" ->
            IF st.rounds < L /\ st.request # NoT
            THEN IF st.cur # <<NONE, st.request[2], 0>>          \* applyRequest()
                 THEN Push([st EXCEPT !.requested = st.request[2], !.pend = st.request, !.request = NoT,
                                      !.cancelled = FALSE, !.gres = FALSE],
                           <<D(M_EXIT_GUARD, st.active), F0("pr_g1")>>)
                 ELSE Push([st EXCEPT !.request = NoT, !.rounds = @ + 1], <<F0("pr_loop")>>)
            ELSE Push(st, <<F0("pr_fin")>>)
      [] t = "pr_g1" ->     \* cancelledByGuards: exit guard || entry guard (short-circuit)
            IF st.gres THEN Push(st, <<F0("pr_round")>>)
            ELSE Push(st, <<D(M_ENTRY_GUARD, st.requested), F0("pr_round")>>)
      [] t = "pr_round" ->
            IF st.gres
            THEN Push([st EXCEPT !.requested = st.cur[2], !.pend = NoT, !.rounds = @ + 1], <<F0("pr_loop")>>)
            ELSE Push([st EXCEPT !.cur = st.pend, !.pend = NoT, !.rounds = @ + 1], <<F0("pr_loop")>>)
      [] t = "pr_fin" ->
            IF st.cur # NoT THEN Push(st, <<F0("chg"), F0("clrreq"), F0("pr_end")>>)
            ELSE Push(st, <<F0("clrreq"), F0("pr_end")>>)
      [] t = "pr_end" ->
            [Push(st, <<>>) EXCEPT !.prev = IF HasHist THEN st.cur ELSE NoT]

      \* ---- C_::deepChangeToRequested
      [] t = "chg" ->
            IF st.requested # st.active
            THEN Push(st, <<D(M_EXIT, st.active), F0("chg_swap")>>)
            ELSE Push([st EXCEPT !.requested = NONE], <<D(M_REENTER, st.active)>>)
      [] t = "chg_swap" ->
            Push([st EXCEPT !.active = st.requested, !.requested = NONE], <<D(M_ENTER, st.requested)>>)

      \* ---- plan step: C_::deepUpdatePlans / FullControlT::updatePlan
      [] t = "planstep" ->
            LET s == Max(st.sub, StatusBits(st)) IN
            IF ~HasPlans \/ s = 0 \/ ~st.planExists THEN Push(st, <<>>)
            ELSE IF s = 2 THEN Push([st EXCEPT !.ts = 2], <<D(M_PLAN_FAILED, NONE), F0("plan_clear")>>)
            ELSE IF st.plan # <<>>
                 THEN LET sc == Scan(st.plan, 1, st.active, st.succ, <<>>, st.request, <<<<>>, {}>>) IN
                      [Push(st, <<>>) EXCEPT !.plan = sc.plan, !.request = sc.req, !.succ = sc.succ,
                                             !.pendlog = @ \o (IF st.logger THEN sc.logs ELSE <<>>)]
                 ELSE Push([st EXCEPT !.ts = 1], <<D(M_PLAN_SUCCEEDED, NONE), F0("plan_clear")>>)
      [] t = "plan_clear" ->
            PlanCleared(Push(st, <<>>))
      [] t = "cycle_end" ->     \* clearRegionStatuses()
            [Push(st, <<>>) EXCEPT !.sub = 0, !.ts = 0]

      \* ---- load
      [] t = "load_active" ->   \* R_::load(stream) on an active machine
            PlanDataCleared(Push([st EXCEPT !.requested = f.x, !.request = NoT, !.prev = NoT], <<F0("chg")>>))
      [] t = "load_enter" ->    \* RV_<Manual>::loadEnter
            Push([st EXCEPT !.requested = f.x], <<F0("deep_enter")>>)
      [] t = "dead" ->          \* end of the destructor of an automatic machine
            [Push(st, <<>>) EXCEPT !.alive = FALSE]

-----------------------------------------------------------------------------
(* Public API                                                               *)

Op(op, a, b, p) == [op |-> op, a |-> a, b |-> b, p |-> p]

IsActive(st) == st.active # NONE

Encode(st) == IF IsActive(st) THEN 1 + 2 * st.active ELSE 0
DecodeOn(x) == x % 2 = 1
DecodeState(x) == (x \div 2) % Pow2(WidthBits)

\* asserted preconditions of the library (calls outside are not part of any behaviour)
InContract(st, o) ==
    LET op == o.op IN
    IF op = "ctor" THEN ~st.alive
    ELSE /\ st.alive
         /\ CASE op = "dtor"   -> Manual => ~IsActive(st)
              [] op \in {"copy", "move"} -> TRUE
              [] op = "attach" -> HasLog
              [] op = "obs"    -> TRUE
              [] op = "enter"  -> Manual /\ ~IsActive(st)
              [] op = "re"     -> Manual /\ HasHist /\ ~IsActive(st) /\ o.a \in States
              [] op = "exit"   -> Manual /\ IsActive(st)
              [] op = "save"   -> HasSerial
              [] op = "load"   -> HasSerial /\ (~Manual => DecodeOn(o.a)) /\ (DecodeOn(o.a) => DecodeState(o.a) \in States)
              [] op \in {"to", "ito"} -> IsActive(st) /\ o.a \in States
              [] op \in {"with", "iwith"} -> IsActive(st) /\ HasPay /\ o.a \in States
              [] op \in {"succeed", "fail"} -> IsActive(st) /\ HasPlans /\ o.a \in States
              [] op = "pc" -> IsActive(st) /\ HasPlans /\ o.a \in States /\ o.b \in States
              [] op = "pw" -> IsActive(st) /\ HasPlans /\ HasPay /\ o.a \in States /\ o.b \in States
              [] op \in {"px", "pr"} -> IsActive(st) /\ HasPlans
              [] op = "rt" -> IsActive(st) /\ HasHist /\ (o.a \in States \/ o.a = NONE)
              [] op \in {"update", "react", "query"} -> IsActive(st)
              [] OTHER -> FALSE

Cycle(pre, main, post, act) ==
    << D(pre, NONE),  D(pre, act),  F0("region_end"),
       D(main, NONE), D(main, act), F0("region_end"),
       D(post, act),  D(post, NONE), F0("region_end"),
       F0("planstep"), F0("cycle_end"), F0("pr") >>

CallStep(st, o) ==
    LET op == o.op
        s0 == [st EXCEPT !.call = o, !.r = 0, !.cur = NoT, !.pend = NoT, !.cancelled = FALSE, !.gres = FALSE,
                         !.rounds = 0, !.ts = 0, !.sub = 0]
        lg(rec) == IF st.logger THEN <<rec>> ELSE <<>>
        s1 ==
        CASE op = "ctor"   -> LET c == [InitSt EXCEPT !.alive = TRUE, !.call = o, !.logger = HasLog /\ o.p # 0] IN
                              IF Manual THEN c ELSE [c EXCEPT !.k = <<F0("ie")>>]
          [] op \in {"copy", "move"} -> s0         \* a copy / move-constructed machine continues the original's history
          [] op = "dtor"   -> IF Manual THEN [s0 EXCEPT !.alive = FALSE]
                              ELSE [s0 EXCEPT !.k = <<F0("fx"), F0("dead")>>]
          [] op = "enter"  -> [s0 EXCEPT !.k = <<F0("ie")>>]
          [] op = "exit"   -> [s0 EXCEPT !.k = <<F0("fx")>>]
          [] op = "update" -> [s0 EXCEPT !.k = Cycle(M_PRE_UPDATE, M_UPDATE, M_POST_UPDATE, st.active)]
          [] op = "react"  -> [s0 EXCEPT !.k = Cycle(M_PRE_REACT, M_REACT, M_POST_REACT, st.active)]
          [] op = "query"  -> [s0 EXCEPT !.k = <<D(M_QUERY, NONE), D(M_QUERY, st.active)>>, !.r = o.a]
          [] op = "to"     -> [s0 EXCEPT !.request = <<NONE, o.a, 0>>, !.pendlog = @ \o lg(<<"t", NONE, o.a>>)]
          [] op = "with"   -> [s0 EXCEPT !.request = <<NONE, o.a, o.p>>, !.pendlog = @ \o lg(<<"t", NONE, o.a>>)]
          [] op = "ito"    -> [s0 EXCEPT !.request = <<NONE, o.a, 0>>, !.pendlog = @ \o lg(<<"t", NONE, o.a>>), !.k = <<F0("pr")>>]
          [] op = "iwith"  -> [s0 EXCEPT !.request = <<NONE, o.a, o.p>>, !.pendlog = @ \o lg(<<"t", NONE, o.a>>), !.k = <<F0("pr")>>]
          [] op = "succeed" -> [s0 EXCEPT !.succ = @ \cup {o.a}, !.pendlog = @ \o lg(<<"s", o.a, 0>>)]
          [] op = "fail"   -> [s0 EXCEPT !.fail = @ \cup {o.a}, !.pendlog = @ \o lg(<<"s", o.a, 1>>)]
          [] op \in {"pc", "pw", "px", "pr"} ->
                LET k2  == CASE op = "pc" -> "PC" [] op = "pw" -> "PW" [] op = "px" -> "PX" [] op = "pr" -> "PR"
                    res == ApplyAct(s0, Fr("cb", 0, NONE, 0, NONE), [k |-> k2, a |-> o.a, b |-> o.b, p |-> o.p])
                IN  [res.st EXCEPT !.r = res.r]
          [] op = "save"   -> [s0 EXCEPT !.r = Encode(st)]
          [] op = "load"   ->
                IF DecodeOn(o.a)
                THEN IF IsActive(st) THEN [s0 EXCEPT !.k = <<Fr("load_active", 0, NONE, 0, DecodeState(o.a))>>]
                     ELSE [s0 EXCEPT !.k = <<Fr("load_enter", 0, NONE, 0, DecodeState(o.a))>>]
                ELSE IF IsActive(st) THEN [s0 EXCEPT !.k = <<F0("fx")>>] ELSE s0
          [] op = "rt"     ->
                IF o.a # NONE
                THEN [s0 EXCEPT !.requested = o.a, !.prev = <<NONE, o.a, 0>>, !.r = 1, !.k = <<F0("chg"), F0("clrreq")>>]
                ELSE s0
          [] op = "re"     -> [s0 EXCEPT !.requested = o.a, !.prev = <<NONE, o.a, 0>>, !.k = <<F0("deep_enter"), F0("clrreq")>>]
          [] op = "attach" -> [s0 EXCEPT !.logger = o.a # 0]
          [] op = "obs"    -> s0
    IN  [st |-> s1, out |-> [e |-> "call", op |-> o.op, a |-> o.a, b |-> o.b, p |-> o.p]]

RetEvent(st) ==
    [ e |-> "ret", op |-> st.call.op, r |-> st.r, pre |-> st.pendlog,
      pfl |-> 1,            \* a const view of the plan taken before the operation still describes the plan after it
      act |-> st.active, ia |-> ActiveSet(st),
      on  |-> IF ~st.alive THEN 0 ELSE IF Manual THEN (IF IsActive(st) THEN 1 ELSE 0) ELSE 1,
      prev |-> st.prev,
      pne |-> IF st.plan # <<>> THEN 1 ELSE 0,
      pfirst |-> IF st.plan # <<>> THEN st.plan[1] ELSE NoT,
      plast  |-> IF st.plan # <<>> THEN st.plan[Len(st.plan)] ELSE NoT,
      plan |-> st.plan ]

RetStep(st) ==
    LET s1 == IF st.call.op = "dtor" THEN [InitSt EXCEPT !.call = st.call, !.pendlog = st.pendlog] ELSE st IN
    [st |-> [s1 EXCEPT !.call = NoCall, !.pendlog = <<>>, !.r = 0], out |-> RetEvent(s1)]

\* what the machine is doing
Idle(st)      == st.k = <<>> /\ st.call = NoCall
AtReturn(st)  == st.k = <<>> /\ st.call # NoCall
AtCallback(st) == st.k # <<>> /\ Head(st.k).t = "cb"
AtInternal(st) == st.k # <<>> /\ Head(st.k).t # "cb"

=============================================================================
