CONSTANTS
  N = 2
  L = 2
  Cap = 2
  HasHead = TRUE
  Manual = FALSE
  HasPay = TRUE
  HasPlans = TRUE
  HasSerial = FALSE
  HasHist = TRUE
  HasLog = FALSE
  Verbose = FALSE
  InjCnt <- NoInj
  DefMask <- AllDef
  MaxActs = 1
  WithMonitors = TRUE
  EnvOps <- PayOpsQ
  EnvActs <- PayActsQ
  EnvPoints <- PayPoints
INIT Init
NEXT Next
VIEW StView
CHECK_DEADLOCK FALSE
INVARIANT TypeOK
INVARIANT MonitorsQuiet
INVARIANT RoundsBounded
INVARIANT IdleClean
INVARIANT ActivityConsistent
INVARIANT PlanWithinCapacity
INVARIANT PrevNamesActive

