"""Model checking runs of the specification (exhaustive configurations, witnesses), cached per spec content."""
import json
import os
import re

import vlib

MC_MODULE = "FFSM2MC.tla"


def _cache_path(name):
    return os.path.join(vlib.ensure(os.path.join(vlib.WORK, "mc")), "%s.%s.json" % (name, vlib.spec_hash()))


def run_config(name, module=MC_MODULE, workers=None, heap="24g", timeout=10800, force=False, extra=None, expect_violation=None):
    """run TLC on spec/<name>.cfg ; returns dict(states, distinct, depth, ok, violated, secs, cached)"""
    cp = _cache_path(name)
    if os.path.exists(cp) and not force:
        with open(cp) as f:
            r = json.load(f)
        r["cached"] = True
        return r
    rc, out, secs = vlib.run_tlc(module, name + ".cfg", os.path.join(vlib.WORK, "meta", "mc." + name), workers=workers or vlib.NCPU,
                                 heap=heap, timeout=timeout, extra=extra)
    r = vlib.parse_mc(out)
    r.update({"config": name, "module": module, "secs": round(secs, 1), "cached": False, "rc": rc})
    if not r["ok"] and r["violated"] is None:
        r["error"] = out[-2500:]
    if r["violated"]:
        r["counterexample"] = out[-6000:]
    if r["ok"] or r["violated"]:
        with open(cp, "w") as f:
            json.dump(r, f, indent=1)
    return r


def witness(base_cfg, inv_name, module=MC_MODULE):
    """reachability witness: the negated invariant `inv_name' must be VIOLATED in configuration base_cfg"""
    name = "%s__%s" % (base_cfg, inv_name)
    cfg_text = open(os.path.join(vlib.SPEC, base_cfg + ".cfg")).read()
    cfg_text = re.sub(r"^INVARIANT .*$", "", cfg_text, flags=re.M) + "\nINVARIANT %s\n" % inv_name
    path = os.path.join(vlib.ensure(os.path.join(vlib.WORK, "cfg")), name + ".cfg")
    cp = _cache_path(name)
    if os.path.exists(cp):
        with open(cp) as f:
            r = json.load(f)
        r["cached"] = True
        return r
    with open(path, "w") as f:
        f.write(cfg_text)
    rc, out, secs = vlib.run_tlc(module, path, os.path.join(vlib.WORK, "meta", "w." + name), workers=vlib.NCPU, heap="16g", timeout=1200)
    r = vlib.parse_mc(out)
    r.update({"config": name, "secs": round(secs, 1), "cached": False, "reached": r["violated"] == inv_name})
    if r["ok"] or r["violated"]:
        with open(cp, "w") as f:
            json.dump(r, f, indent=1)
    return r


def run_simulate(name, seconds, seed=1, module=MC_MODULE, depth=250):
    """random simulation of a configuration too large to enumerate (monitors folded in); runs for about `seconds'
    and reports how many states / traces were checked; a violated invariant is an error like in run_config"""
    import subprocess
    import time
    cp = _cache_path("sim.%s.%d.%d" % (name, seconds, seed))
    if os.path.exists(cp):
        with open(cp) as f:
            r = json.load(f)
        r["cached"] = True
        return r
    metadir = vlib.ensure(os.path.join(vlib.WORK, "meta", "sim." + name))
    cmd = vlib.java_cmd("8g", True) + ["-workers", str(max(2, vlib.NCPU // 2)), "-noGenerateSpecTE", "-metadir", metadir, "-seed", str(seed),
                                       "-simulate", "num=1000000", "-depth", str(depth), "-config", name + ".cfg", module]
    t0 = time.time()
    try:
        r = subprocess.run(["timeout", str(int(seconds))] + cmd, cwd=vlib.SPEC, stdout=subprocess.PIPE, stderr=subprocess.STDOUT, universal_newlines=True)
        out = r.stdout
    finally:
        import shutil
        shutil.rmtree(metadir, ignore_errors=True)
    res = {"config": name, "secs": round(time.time() - t0, 1), "states_checked": 0, "traces": 0, "violated": None, "ok": True}
    for mm in re.finditer(r"Progress: (\d+) states checked, (\d+) traces generated", out):
        res["states_checked"], res["traces"] = int(mm.group(1)), int(mm.group(2))
    mm = re.search(r"Invariant (\w+) is violated", out)
    if mm:
        res["violated"], res["ok"] = mm.group(1), False
        res["counterexample"] = out[-6000:]
    elif "Error:" in out:
        res["ok"] = False
        res["error"] = out[-2000:]
    with open(cp, "w") as f:
        json.dump(res, f, indent=1)
    return res
