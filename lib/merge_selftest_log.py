#!/usr/bin/env python3
"""fold the summary lines of `bin/check selftest --seeded` logs (background runs) into seeded/results.json; rows already present
with a newer foreground result are kept unless --force"""
import json, os, re, sys
VERIF = os.path.dirname(os.path.dirname(os.path.abspath(__file__)))
p = os.path.join(VERIF, "seeded", "results.json")
res = json.load(open(p))
rows = {r["name"]: r for r in res["rows"]}
force = "--force" in sys.argv
for log in [a for a in sys.argv[1:] if not a.startswith("--")]:
    for line in open(log):
        m = re.match(r'(C\d+_\S+)\s+(caught|MISSED)\s+breaks=(\S+) found=(\S+)(?: UNEXPECTED=(\S+))? drift=(\d+)', line)
        if not m:
            continue
        name = m.group(1)
        found = [] if m.group(4) == "-" else m.group(4).split(",")
        new = {"name": name, "breaks": m.group(3).split(","), "found": found, "unexpected": m.group(5).split(",") if m.group(5) else [],
               "drift": int(m.group(6)), "suite": None, "build_failed": [], "verif_commit": "background run " + os.path.basename(os.path.dirname(log))}
        old = rows.get(name)
        if old is None or force or not (set(old["breaks"]) & set(old["found"])):
            rows[name] = new
res["rows"] = sorted(rows.values(), key=lambda r: r["name"])
json.dump(res, open(p, "w"), indent=1)
print(len(res["rows"]), "rows")
