CONSTANTS
  CapT = 1
  Vals <- Vals3
INIT Init
NEXT Next
VIEW StateView
CHECK_DEADLOCK FALSE
INVARIANT InvRefines
INVARIANT InvFreeList
INVARIANT InvCapacityExact
INVARIANT InvAppendAtRoom
INVARIANT InvSweep
