"""Specification -> code: behaviours of FFSM2.tla, drawn by TLC's simulation mode at the constants of a harness
profile (module FFSM2Sim), turned into harness scripts.  The recorded trace of each script is validated against the
specification like any other, so every behaviour TLC generated is one implementation test with a complete oracle."""
import json
import os
import shutil
import subprocess

import vlib


def profile_cfg(exe):
    """the cfg event the harness emits for its build (constants as the library instantiated them)"""
    d = vlib.ensure(os.path.join(vlib.WORK, "sim", "probe"))
    out = os.path.join(d, "%d.%s.ndjson" % (os.getpid(), os.path.basename(exe)))
    r = subprocess.run([exe, "-", out], input="reset\n", universal_newlines=True, stdout=subprocess.PIPE, stderr=subprocess.STDOUT, timeout=30)
    cfg = None
    with open(out) as f:
        for line in f:
            e = json.loads(line)
            if e.get("e") == "cfg":
                cfg = e
                break
    os.remove(out)
    return cfg


def _tla_seq(xs):
    return "<<" + ", ".join(str(x) for x in xs) + ">>"


def _b(x):
    return "TRUE" if x else "FALSE"


def labels_to_script(behaviours):
    """behaviours: list of lists of step labels (FFSM2MC!lbl) -> harness script text"""
    lines = []
    for t in behaviours:
        lines.append("reset")
        cur = None
        for lbl in t:
            parts = lbl.split("|")
            if parts[0] == "call":
                if cur is not None:
                    lines.append(cur[0] + (" | " + " ; ".join(cur[1]) if cur[1] else ""))
                cur = ["@0 %s %s %s %s" % (parts[1], parts[2], parts[3], parts[4]), []]
            elif parts[0] == "cb" and cur is not None:
                key, acts = parts[1].split(":", 1)
                cur[1].append("%s:%s" % (key, acts))
        if cur is not None:
            lines.append(cur[0] + (" | " + " ; ".join(cur[1]) if cur[1] else ""))
    return "\n".join(lines) + "\n"


def sim_script(pname, cfg, num, depth, seed, actpct=40, workers=4):
    """-> (script text, info).  cfg: the harness's cfg event.  num behaviours per worker, each `depth' steps long."""
    key = vlib.sha(vlib.spec_hash(), json.dumps(cfg, sort_keys=True), str(num), str(depth), str(seed), str(actpct), str(workers))
    d = vlib.ensure(os.path.join(vlib.WORK, "sim", key))
    sfile = os.path.join(d, "script.txt")
    ifile = os.path.join(d, "info.json")
    if os.path.exists(sfile) and os.path.exists(ifile):
        return open(sfile).read(), json.load(open(ifile))
    mod = "SIMP_%s" % pname
    with open(os.path.join(d, mod + ".tla"), "w") as f:
        f.write("---- MODULE %s ----\nEXTENDS FFSM2Sim\nPInj == %s\nPDef == %s\n====\n" % (mod, _tla_seq(cfg["inj"]), _tla_seq(cfg["def"])))
    with open(os.path.join(d, mod + ".cfg"), "w") as f:
        f.write("CONSTANTS\n  N = %d\n  L = %d\n  Cap = %d\n" % (cfg["N"], cfg["L"], max(cfg["cap"], 1) if cfg["plans"] else 1))
        f.write("  HasHead = %s\n  Manual = %s\n  HasPay = %s\n  HasPlans = %s\n  HasSerial = %s\n  HasHist = %s\n  HasLog = %s\n  Verbose = %s\n" % (
            _b(cfg["head"]), _b(cfg["manual"]), _b(cfg["pay"]), _b(cfg["plans"]), _b(cfg["serial"]), _b(cfg["hist"]), _b(cfg["log"]), _b(cfg["verbose"])))
        f.write("  InjCnt <- PInj\n  DefMask <- PDef\n  MaxActs = 2\n  WithMonitors = FALSE\n  EnvOps <- SimOps\n  EnvActs <- SimActs\n  EnvPoints <- AllPoints\n")
        f.write("  ExportDepth = %d\n  ActPct = %d\nINIT SimInit\nNEXT SimNext\nCHECK_DEADLOCK FALSE\nCONSTRAINT Export\nINVARIANT TypeOK\n" % (depth, actpct))
    meta = os.path.join(d, "meta")
    cmd = ["java", "-XX:+UseSerialGC", "-Xss32m", "-Xmx3g", "-DTLA-Library=" + vlib.SPEC, "-cp", vlib.TLA_CP, "tlc2.TLC", "-workers", str(workers),
           "-noGenerateSpecTE", "-metadir", meta, "-simulate", "num=%d" % num, "-depth", str(depth + 1), "-seed", str(seed), "-config", mod + ".cfg", mod + ".tla"]
    try:
        r = subprocess.run(cmd, cwd=d, stdout=subprocess.PIPE, stderr=subprocess.STDOUT, universal_newlines=True, timeout=900)
        out = r.stdout
    except subprocess.TimeoutExpired as e:
        so = e.stdout or ""
        out = (so.decode("utf-8", "replace") if isinstance(so, bytes) else so) + "\nTIMEOUT"
    shutil.rmtree(meta, ignore_errors=True)
    shutil.rmtree(os.path.join(d, "states"), ignore_errors=True)
    behaviours = []
    for line in out.splitlines():
        line = line.strip()
        if line.startswith('"BEHAVIOUR '):
            try:
                behaviours.append(json.loads(json.loads(line)[len("BEHAVIOUR "):]))
            except ValueError:
                pass
    info = {"behaviours": len(behaviours), "steps": sum(len(b) for b in behaviours), "depth": depth, "seed": seed,
            "error": None if behaviours and "Error:" not in out else out[-1500:]}
    text = labels_to_script(behaviours)
    with open(sfile, "w") as f:
        f.write(text)
    with open(ifile, "w") as f:
        json.dump(info, f)
    return text, info


def prune(keep=40):
    d = os.path.join(vlib.WORK, "sim")
    if not os.path.isdir(d):
        return
    entries = sorted(((os.path.getmtime(os.path.join(d, e)), e) for e in os.listdir(d)), reverse=True)
    for _, e in entries[keep:]:
        shutil.rmtree(os.path.join(d, e), ignore_errors=True)
