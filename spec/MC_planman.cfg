CONSTANTS
  N = 2
  L = 1
  Cap = 1
  HasHead = TRUE
  Manual = TRUE
  HasPay = FALSE
  HasPlans = TRUE
  HasSerial = FALSE
  HasHist = TRUE
  HasLog = FALSE
  Verbose = FALSE
  InjCnt <- NoInj
  DefMask <- AllDef
  MaxActs = 1
  WithMonitors = TRUE
  EnvOps <- PlanManOps
  EnvActs <- PlanManActs
  EnvPoints <- PlanManPoints
INIT Init
NEXT Next
VIEW StView
CHECK_DEADLOCK FALSE
INVARIANT TypeOK
INVARIANT MonitorsQuiet
INVARIANT RoundsBounded
INVARIANT IdleClean
INVARIANT ActivityConsistent
INVARIANT PlanWithinCapacity
INVARIANT PrevNamesActive

