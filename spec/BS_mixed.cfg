CONSTANTS
  CapS = 72
  Widths <- WMixed
  MaxFields = 3
INIT BSInit
NEXT Next
CHECK_DEADLOCK FALSE
INVARIANT InvPacked
INVARIANT InvRoundTrip
