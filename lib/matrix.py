"""Configuration sweeps: state-count sweep (C14) and feature-switch matrix (C19)."""
import itertools
import json
import os
import random
import shutil
import subprocess
import time
from concurrent.futures import ThreadPoolExecutor

import traceprep
import vlib


def _build_tmp(name, prof, outdir):
    """uncached build into outdir (sweep binaries are large and used once)"""
    flags = vlib.profile_flags(prof)
    exe = os.path.join(outdir, name)
    cmd = [prof.get("cxx", vlib.CXX), "-std=" + prof.get("std", "c++11"), "-O0", "-w", "-DFFSM2_VERIF", "-I", os.path.join(vlib.REPO, "include"),
           "-I", os.path.join(vlib.REPO, "development"), "-I", vlib.HARNESS] + flags + [os.path.join(vlib.HARNESS, "main.cpp"), "-o", exe]
    r = subprocess.run(cmd, stdout=subprocess.PIPE, stderr=subprocess.STDOUT, universal_newlines=True)
    return (exe if r.returncode == 0 else None), r.stdout[-1500:]


# ----------------------------------------------------------------------------- C14: every state count, every index

def sweep_script(n, manual, plans):
    ls = ["reset", "@0 ctor 0 1 0"]
    if manual:
        ls.append("@0 enter")
    for k in range(n):
        ls += ["@0 ito %d" % k, "@0 update | 5.%d.0:T%d" % (k, (k * 7 + 3) % n), "@0 react 1", "@0 query 2"]
    # a few transitions requested from callbacks, guards redirecting across the halves of the state list
    for k in (0, n // 2, n - 1):
        ls += ["@0 ito %d | 1.%d.0:X,T%d" % (k, k, (k + n // 2) % n), "@0 update"]
    if plans and n >= 2:
        ls += ["@0 pc %d %d" % (n - 1, 0), "@0 ito %d" % (n - 1), "@0 succeed %d" % (n - 1), "@0 update", "@0 update"]
    # save / load round trips at the ends and in the middle of the id range (skipped by the harness where serialization is not compiled in)
    for k in sorted({0, n // 2, (2 * n) // 3, n - 1}):
        ls += ["@0 ito %d" % k, "@0 save", "@0 ito %d" % ((k + 1) % n), "@0 load -1", "@0 save", "@0 update"]
    if n >= 2:
        ls += ["@0 rt %d" % (n - 1), "@0 rt 0", "@0 with %d 0 1" % (n - 1), "@0 update"]
    return "\n".join(ls) + "\n"


def extra_c14(tier, seed):
    q = tier == "quick"
    rng = random.Random(seed)
    if q:
        sizes = [1, 2, 3, 4, 5, 6, 7, 8, 9, 15, 16, 17, 31, 32, 33, 63, 64, 65, 100, 127, 128, 129, 200, 254, 255]
    else:
        sizes = list(range(1, 256))
    key = vlib.sha(vlib.repo_hash(), vlib.harness_hash(), vlib.spec_hash(), "sweep", tier, str(seed), vlib.file_hash([os.path.abspath(__file__)]))
    wd = vlib.ensure(os.path.join(vlib.WORK, "sweep", key))
    rfile = os.path.join(wd, "result.json")
    if os.path.exists(rfile):
        with open(rfile) as f:
            return json.load(f)
    t0 = time.time()
    out = {"findings": [], "infra": [], "coverage": {}}

    def one(n):
        prof = dict(N=n, L=2, cap=0, head=n % 2, manual=(n // 2) % 2, pay=0, ctx=0, feat="PSH" if n % 3 else "P", dev=1 if n % 5 == 0 else 0)
        bdir = vlib.ensure(os.path.join(wd, "b%d" % n))
        try:
            exe, blog = _build_tmp("n%d" % n, prof, bdir)
            if exe is None:
                return n, None, "harness does not build for N=%d: %s" % (n, blog[-500:])
            base = os.path.join(wd, "n%d" % n)
            script = sweep_script(n, prof["manual"], True)
            with open(base + ".script", "w") as f:
                f.write(script)
            vlib.run_harness(exe, script, base + ".raw.ndjson", timeout=60)
        finally:
            shutil.rmtree(bdir, ignore_errors=True)
        traceprep.write_for_tlc(base + ".raw.ndjson", base + ".tlc.ndjson")
        v = vlib.validate_trace(base + ".tlc.ndjson", "sweep%d" % n)
        os.remove(base + ".raw.ndjson")
        return n, (prof, base, v), None

    runs = []
    # large machines take longest to compile: start them first
    with ThreadPoolExecutor(max_workers=max(2, vlib.NCPU - 1)) as ex:
        for n, res, err in ex.map(one, sorted(sizes, reverse=True)):
            if err:
                out["infra"].append(err)
                continue
            prof, base, v = res
            events = sum(1 for _ in open(base + ".tlc.ndjson"))
            runs.append({"N": n, "head": prof["head"], "manual": prof["manual"], "events": events, "accepted": v["accepted"],
                         "findings": [f for f in v["findings"]], "secs": v["secs"]})
            if v["error"]:
                out["infra"].append("TLC failed for N=%d: %s" % (n, v["error"][-400:]))
            bad = [f for f in v["findings"] if f[0] == "C14"]
            # findings of the other properties' monitors at this state count are kept for those properties' checks (props.check)
            for f in v["findings"]:
                if f[0] != "C14":
                    out.setdefault("other_findings", []).append({"property": f[0], "N": n, "line": f[1], "why": f[2], "replay": os.path.join(vlib.EVIDENCE, "replays", f[0], "sweep_n%d" % n),
                                                                  "script": base + ".script", "trace": base + ".tlc.ndjson", "profile_def": prof})
            # a conformance mismatch in this scenario means a transition to id k did not reach the k-th declared state
            if bad or v["rejected"]:
                d = os.path.join(vlib.EVIDENCE, "replays", "C14", "n%d" % n)
                shutil.rmtree(d, ignore_errors=True)
                vlib.ensure(d)
                shutil.copy(base + ".script", os.path.join(d, "script.txt"))
                shutil.copy(base + ".tlc.ndjson", os.path.join(d, "trace.tlc.ndjson"))
                what = bad[0][2] if bad else "dispatch mismatch at line %d: %s" % (v["rejected"][0]["line"], v["rejected"][0]["why"])
                with open(os.path.join(d, "finding.json"), "w") as f:
                    json.dump({"property": "C14", "profile": "n%d" % n, "profile_def": prof, "finding": {"why": what},
                               "detail": v["rejected"][0]["detail"][:1500] if v["rejected"] else ""}, f, indent=1)
                if bad:     # the verdict comes from the C14 monitors; a conformance mismatch alone is drift (it may have any cause)
                    out["findings"].append({"what": "N=%d: %s" % (n, what), "signature": "N=%d %s" % (n, what[:60]), "replay": d})
            elif not [f for f in v["findings"] if f[0] != "C14"]:
                os.remove(base + ".tlc.ndjson")
    runs.sort(key=lambda r: r["N"])
    out["coverage"] = {"traces_validated_against_impl": sum(1 for r in runs if r["accepted"]),
                       "state_counts_swept": [r["N"] for r in runs], "sweep_events": sum(r["events"] for r in runs),
                       "samples": [{"sweep_run": r} for r in runs[:3]], "sweep_wall_s": round(time.time() - t0, 1)}
    with open(rfile, "w") as f:
        json.dump(out, f, indent=1)
    _prune(os.path.join(vlib.WORK, "sweep"))
    return out


def _prune(d, keep=3):
    if os.path.isdir(d):
        entries = sorted(((os.path.getmtime(os.path.join(d, e)), e) for e in os.listdir(d)), reverse=True)
        for _, e in entries[keep:]:
            shutil.rmtree(os.path.join(d, e), ignore_errors=True)


def _dispatch_related(rej):
    """in the sweep scenario a rejection counts for C14 when the wrong callback / state was reached"""
    return rej["why"] in ("wrong callback delivered", "callback view / results differ", "observation at return differs",
                          "callback delivered where the specification expects no activity", "callback delivered where the specification expects the return of the running call")


# ----------------------------------------------------------------------------- C19: feature switches

SWITCHES = "PSHGVRDT"


def pairwise_rows(rng, nbits=8, target=32):
    """a small set of rows covering every pair of switch values (greedy)"""
    need = {(i, a, j, b) for i in range(nbits) for j in range(i + 1, nbits) for a in (0, 1) for b in (0, 1)}
    rows = [tuple([0] * nbits), tuple([1] * nbits)]
    for r in rows:
        need -= {(i, r[i], j, r[j]) for i in range(nbits) for j in range(i + 1, nbits)}
    while need:
        best, bestc = None, -1
        for _ in range(60):
            r = tuple(rng.randrange(2) for _ in range(nbits))
            c = sum(1 for (i, a, j, b) in need if r[i] == a and r[j] == b)
            if c > bestc:
                best, bestc = r, c
        rows.append(best)
        need -= {(i, best[i], j, best[j]) for i in range(nbits) for j in range(i + 1, nbits)}
    while len(rows) < target:
        rows.append(tuple(rng.randrange(2) for _ in range(nbits)))
    return rows


NEUTRAL = """reset
@0 ctor 0 1 0
@0 enter
@0 update | 5.0.0:T1
@0 update | 4.1.0:T2 ; 1.2.0:X,T0 ; 11.1.0:
@0 react 3 | 8.0.0:T2 ; 10.255.0:T1
@0 query 4
@0 ito 2 | 11.1.0:T0 ; 1.0.0:X
@0 to 1
@0 update | 11.2.0:X
@0 update
@0 ito 0 | 1.0.0:T1 ; 1.1.0:T2 ; 1.2.0:T0
@0 update
@0 react 1 | 7.255.0:T0,T2
@0 ito 2
@0 ito 2
@0 update
reset
@0 ctor 1 2 0
@0 enter
@0 ito 1
@0 save
@0 to 2
@0 load -1
@0 update
@0 pc 1 2
@0 pc 2 0
@0 to 0
@0 succeed 1
@0 load -1
@0 update | 5.1.0:S
@0 update
@0 with 2 0 1
@0 rt 0
@0 update
@0 iwith 1 0 2 | 1.1.0:W2.3
@0 to 1
@0 rt 255
@0 save
@0 update | 6.255.0:PC1.0,F1
@0 react 2 | 10.1.0:S ; 7.255.0:T2
@0 fail 2
@0 update
@0 load -1
@0 attach 1
@0 update | 5.2.0:T0
@0 exit
@0 re 2
@0 enter
@0 update | 5.0.0:S ; 5.1.0:S ; 5.2.0:S
@0 update | 4.0.0:F ; 4.1.0:F ; 4.2.0:F
@0 pc 0 1
@0 exit
@0 enter
@0 succeed 0
@0 update
@0 load 0
@0 load -1
@0 update
reset
@0 ctor 0 4 0
@0 enter
@0 to 1
@1 copy 0
@0 update
@1 update
@1 to 2
@2 copy 1
@1 update
@2 update
@2 dtor
@1 dtor
reset
rnd %(seed)d1 70 0
reset
rnd %(seed)d2 70 3
"""
# The copies are taken while a request waits: a copy must carry it whatever the switches (a member copied only under one switch).
# Operations and control actions of a feature that is not compiled in are skipped by the harness (they are out of contract there),
# so one program serves every switch combination; what must happen is decided by the specification instantiated with the
# build's own feature constants: enabling a feature the program does not use must not change what the used ones do.


def extra_c19(tier, seed):
    q = tier == "quick"
    rng = random.Random(seed)
    key = vlib.sha(vlib.repo_hash(), vlib.harness_hash(), vlib.spec_hash(), "matrix", tier, str(seed), vlib.file_hash([os.path.abspath(__file__)]))
    wd = vlib.ensure(os.path.join(vlib.WORK, "matrix", key))
    rfile = os.path.join(wd, "result.json")
    if os.path.exists(rfile):
        with open(rfile) as f:
            return json.load(f)
    t0 = time.time()
    out = {"findings": [], "infra": [], "coverage": {}}
    if q:
        rows = pairwise_rows(rng)
        combos = [("".join(c for c, b in zip(SWITCHES, r) if b), "g++", "c++11") for r in rows] + [("A", "g++", "c++11"), ("AGV", "clang++", "c++17")]
        combos += [("PSH", "clang++", "c++11"), ("PSHG", "g++", "c++14"), ("PSHGV", "g++", "c++20"), ("", "clang++", "c++20")]
        if len(combos) % 2:
            combos.append(("G", "g++", "c++11"))
        for f in ("P", "PS", "S", "H"):         # single features, each under automatic and manual activation (the index parity selects it)
            combos += [(f, "g++", "c++11"), (f, "g++", "c++11")]
    else:
        allrows = list(itertools.product((0, 1), repeat=8))
        combos = []
        for r in allrows:
            feat = "".join(c for c, b in zip(SWITCHES, r) if b)
            for cxx in ("g++", "clang++"):
                for std in ("c++11", "c++14", "c++17", "c++20"):
                    combos.append((feat, cxx, std))
        combos += [("A", cxx, std) for cxx in ("g++", "clang++") for std in ("c++11", "c++14", "c++17", "c++20")]

    def one(job):
        idx, (feat, cxx, std) = job
        prof = dict(N=3, L=2, cap=(idx // 8) % 2 * 2, head=1, manual=idx % 2, pay=(idx // 2) % 2 * 3, ctx=0, feat=feat, dev=(idx // 4) % 2, cfgorder=(idx // 2) % 4, cxx=cxx, std=std)
        bdir = vlib.ensure(os.path.join(wd, "b%d" % idx))
        try:
            exe, blog = _build_tmp("m%d" % idx, prof, bdir)
            if exe is None:
                return idx, prof, None, blog
            raw = os.path.join(wd, "m%d.raw.ndjson" % idx)
            vlib.run_harness(exe, NEUTRAL % {"seed": seed}, raw, timeout=20)
        finally:
            shutil.rmtree(bdir, ignore_errors=True)
        return idx, prof, raw, ""

    results = []
    with ThreadPoolExecutor(max_workers=max(2, vlib.NCPU - 1)) as ex:
        for idx, prof, raw, blog in ex.map(one, list(enumerate(combos))):
            results.append((idx, prof, raw, blog))
    # validate: group traces by the constants the specification needs (one TLC run per group)
    groups = {}
    failed = []
    for idx, prof, raw, blog in results:
        if raw is None:
            failed.append((idx, prof, blog))
            continue
        tl = raw.replace(".raw.", ".tlc.")
        traceprep.write_for_tlc(raw, tl)
        with open(tl) as f:
            first = json.loads(f.readline())
        gk = json.dumps({k: first[k] for k in ("N", "L", "cap", "head", "manual", "pay", "plans", "serial", "hist", "log", "verbose", "inj", "def")}, sort_keys=True)
        groups.setdefault(gk, []).append((idx, prof, tl))
    for idx, prof, blog in failed[:5]:
        what = "switch combination [%s] with %s -std=%s (manual=%d payload=%d %s header) does not compile: %s" % (
            prof["feat"], prof["cxx"], prof["std"], prof["manual"], prof["pay"], "development" if prof["dev"] else "single", blog[-300:].replace("\n", " "))
        out["findings"].append({"what": what, "signature": "compile [%s] %s %s" % (prof["feat"], prof["cxx"], prof["std"]), "replay": ""})
    validated = 0

    def val(item):
        gk, members = item
        cat = os.path.join(wd, "g%s.tlc.ndjson" % vlib.sha(gk))
        with open(cat, "w") as f:
            for idx, prof, tl in members:
                f.write(open(tl).read())
        return members, vlib.validate_trace(cat, "matrix" + vlib.sha(gk)), cat
    with ThreadPoolExecutor(max_workers=max(2, vlib.NCPU - 2)) as ex:
        for members, v, cat in ex.map(val, list(groups.items())):
            if v["error"]:
                out["infra"].append("TLC failed on a feature-matrix group: %s" % v["error"][-400:])
            if v["accepted"] and not v["findings"]:
                validated += len(members)
                os.remove(cat)
            else:
                prof = members[0][1]
                why = v["rejected"][0]["why"] if v["rejected"] else (v["findings"][0][2] if v["findings"] else "?")
                out["findings"].append({"what": "behaviour of the feature-neutral program differs under switches like [%s]: %s (trace %s)" % (prof["feat"], why, cat),
                                        "signature": "behaviour [%s] %s" % (prof["feat"], why[:50]), "replay": cat})
    for idx, prof, raw, blog in results:
        if raw and os.path.exists(raw):
            os.remove(raw)
    # a large machine built with and without a feature the program never uses: the two builds must behave identically, event by
    # event, including the user state kept in the state objects (CrossTrace "feat" mode)
    wide = _feature_twins(wd, tier)
    out["findings"] += wide["findings"]
    out["infra"] += wide["infra"]
    # the shipped single header must be exactly what tools/join.py produces from the development sources
    amalg = _amalgamation_identical()
    if amalg is False:
        out["findings"].append({"what": "include/ffsm2/machine.hpp differs from the amalgamation of development/ produced by tools/join.py",
                                "signature": "amalgamation differs", "replay": ""})
    out["coverage"] = {"traces_validated_against_impl": validated, "switch_combinations_built": len(combos), "compile_failures": len(failed),
                       "feature_twins": wide["coverage"],
                       "compilers": sorted({c[1] for c in combos}), "standards": sorted({c[2] for c in combos}),
                       "spec_constant_groups": len(groups), "amalgamation_identical": amalg,
                       "samples": [{"combination": {"switches": c[0], "compiler": c[1], "std": c[2]}} for c in combos[:4]],
                       "matrix_wall_s": round(time.time() - t0, 1)}
    with open(rfile, "w") as f:
        json.dump(out, f, indent=1)
    _prune(os.path.join(vlib.WORK, "matrix"))
    return out


def _wide_program(n):
    ls = ["reset", "@0 ctor 0 1 0", "@0 enter"]
    for k in list(range(1, n)) + [0]:           # leave every state once
        ls.append("@0 ito %d" % k)
    for k in range(min(n, 12)):                 # then visit the first states again: their user state is reported in their callbacks
        ls += ["@0 ito %d" % k, "@0 update", "@0 react 1"]
    ls += ["@0 exit", "@0 enter", "@0 update | 5.0.0:T%d" % (n - 1), "@0 update", "@0 exit"]
    return "\n".join(ls) + "\n"


def _feature_twins(wd, tier):
    import pool
    out = {"findings": [], "infra": [], "coverage": []}
    pairs = [(250, "", "P")] + ([] if tier == "quick" else [(255, "", "PSH"), (129, "S", "PS"), (250, "G", "PG")])

    def build_run(job):
        n, feat, tag = job
        prof = dict(N=n, L=2, cap=0, head=1, manual=1, pay=0, ctx=0, feat=feat)
        bdir = vlib.ensure(os.path.join(wd, "w%s" % tag))
        try:
            exe, blog = _build_tmp("w%s" % tag, prof, bdir)
            if exe is None:
                return tag, None, blog
            raw = os.path.join(wd, "w%s.raw.ndjson" % tag)
            vlib.run_harness(exe, _wide_program(n), raw, timeout=120)
        finally:
            shutil.rmtree(bdir, ignore_errors=True)
        return tag, raw, ""
    jobs = []
    for idx, (n, fa, fb) in enumerate(pairs):
        jobs += [(n, fa, "%da" % idx), (n, fb, "%db" % idx)]
    res = {}
    with ThreadPoolExecutor(max_workers=4) as ex:
        for tag, raw, blog in ex.map(build_run, jobs):
            res[tag] = (raw, blog)
    for idx, (n, fa, fb) in enumerate(pairs):
        (ra, la), (rb, lb) = res["%da" % idx], res["%db" % idx]
        if ra is None or rb is None:
            out["findings"].append({"what": "a %d-state machine does not compile with switches [%s] / [%s]: %s" % (n, fa, fb, (la or lb)[-300:].replace("\n", " ")),
                                    "signature": "compile wide %d [%s][%s]" % (n, fa, fb), "replay": ""})
            continue
        tw = os.path.join(wd, "twin%d.ndjson" % idx)
        pool.write_twin_trace(ra, rb, tw, mark="feat")
        x = vlib.validate_cross(tw, "feat%d" % idx)
        events = sum(1 for _ in open(tw))
        out["coverage"].append({"states": n, "without": fa, "with": fb, "events": events, "identical": not x["findings"] and not x["error"]})
        if x["error"]:
            out["infra"].append("TLC failed on the feature twins: " + x["error"][-400:])
        for (prop, ln, why) in x["findings"]:
            if prop == "C19":
                out["findings"].append({"what": "%d states, switches [%s] vs [%s], line %d: %s (trace %s)" % (n, fa, fb, ln, why, tw),
                                        "signature": "feature twins %d [%s][%s]" % (n, fa, fb), "replay": tw})
        for r in (ra, rb):
            if os.path.exists(r):
                os.remove(r)
    return out


def _amalgamation_identical():
    d = os.path.join(vlib.WORK, "amalg")
    shutil.rmtree(d, ignore_errors=True)
    try:
        os.makedirs(os.path.join(d, "include", "ffsm2"))
        shutil.copytree(os.path.join(vlib.REPO, "development"), os.path.join(d, "development"))
        shutil.copytree(os.path.join(vlib.REPO, "tools"), os.path.join(d, "tools"))
        r = subprocess.run(["python3", "join.py"], cwd=os.path.join(d, "tools"), stdout=subprocess.PIPE, stderr=subprocess.STDOUT)
        if r.returncode != 0:
            return None
        with open(os.path.join(d, "include", "ffsm2", "machine.hpp"), "rb") as f:
            gen = f.read()
        with open(os.path.join(vlib.REPO, "include", "ffsm2", "machine.hpp"), "rb") as f:
            shipped = f.read()
        return gen == shipped
    finally:
        shutil.rmtree(d, ignore_errors=True)
