#!/usr/bin/env python3
"""seeded/README.md: which checks catch which independently written changes (from seeded/*/meta.json and seeded/results.json)."""
import json
import os

VERIF = os.path.dirname(os.path.dirname(os.path.abspath(__file__)))


def main():
    sd = os.path.join(VERIF, "seeded")
    res = {r["name"]: r for r in json.load(open(os.path.join(sd, "results.json"))).get("rows", [])}
    lines = ["# Seeded changes", "",
             "Source changes to andrew-gresyk/FFSM2 written by independent sub-agents (given only the text of one property and a scratch",
             "worktree), each confirmed in a fresh worktree: the patch applies, the repository's own suite still passes, the demonstration",
             "fails with the change and passes without it (`meta.json`).  `bin/check selftest --seeded` applies each to a scratch copy and",
             "runs the quick tier against it; the table is generated from `results.json` by `lib/seedtable.py`.", "",
             "| change | breaks | what it needs | checks that report it | result |", "|---|---|---|---|---|"]
    n = caught = 0
    for name in sorted(os.listdir(sd)):
        mj = os.path.join(sd, name, "meta.json")
        if not os.path.exists(mj):
            continue
        m = json.load(open(mj))
        r = res.get(name)
        n += 1
        if r is None:
            status, found = "not run yet", ""
        else:
            ok = m["property"] in r["found"]
            caught += ok
            status = "caught" if ok else "MISSED"
            found = " ".join(r["found"])
        lines.append("| `%s` | %s | %s | %s | %s |" % (name, m["property"], m.get("needs", "").replace("|", "/")[:230], found, status))
    lines += ["", "%d changes, %d reported by the check of the property they were written to break." % (n, caught), ""]
    notes = []
    for name in sorted(os.listdir(sd)):
        mj = os.path.join(sd, name, "meta.json")
        if os.path.exists(mj):
            m = json.load(open(mj))
            if m.get("note"):
                notes.append("* `%s`: %s" % (name, m["note"]))
    if notes:
        lines += ["Notes on the others:", ""] + notes + [""]
    with open(os.path.join(sd, "README.md"), "w") as f:
        f.write("\n".join(lines))
    print("%d changes, %d caught" % (n, caught))


if __name__ == "__main__":
    main()
