CONSTANTS
  N = 2
  L = 1
  Cap = 3
  HasHead = TRUE
  Manual = FALSE
  HasPay = FALSE
  HasPlans = TRUE
  HasSerial = FALSE
  HasHist = TRUE
  HasLog = FALSE
  Verbose = FALSE
  InjCnt <- NoInj
  DefMask <- AllDef
  MaxActs = 2
  WithMonitors = TRUE
  EnvOps <- PlanEditOps
  EnvActs <- PlanEditActs
  EnvPoints <- PlanEditPoints
INIT Init
NEXT Next
VIEW StView
CHECK_DEADLOCK FALSE
INVARIANT TypeOK
INVARIANT MonitorsQuiet
INVARIANT RoundsBounded
INVARIANT IdleClean
INVARIANT ActivityConsistent
INVARIANT PlanWithinCapacity
INVARIANT PrevNamesActive

