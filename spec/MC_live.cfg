CONSTANTS
  N = 2
  L = 2
  Cap = 2
  HasHead = TRUE
  Manual = FALSE
  HasPay = FALSE
  HasPlans = FALSE
  HasSerial = FALSE
  HasHist = TRUE
  HasLog = FALSE
  Verbose = FALSE
  InjCnt <- NoInj
  DefMask <- AllDef
  MaxActs = 2
  WithMonitors = FALSE
  EnvOps <- GuardOpsQ
  EnvActs <- GuardActs
  EnvPoints <- GuardPoints
SPECIFICATION FairSpec
CHECK_DEADLOCK FALSE
INVARIANT TypeOK
INVARIANT RoundsBounded
PROPERTY Terminates
