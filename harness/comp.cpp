// Component driver: runs operation scripts on the real TaskListT/PlanT (through a machine's plan()),
// BitArrayT, StaticArrayT/DynamicArrayT, BitWriteStreamT/BitReadStreamT and bitWidth() for one
// compile-time capacity (-DVC_CAP=n) and records every result as ndjson.
//
//   comp <script|-> <trace-out>
// script lines:  plan new|append o d|remove n|sweep mask|clear|dataclear      (n: 1-based position in iteration order)
//                ba new|set i|clear i|setall|clearall|and k        (k: mask id, see masks below)
//                ar new|sset i v|sfill v|sclear|demplace v|dclear
//                bs new|write W lo hi|read W                       (value = lo + 65536*hi)
//                bw lo hi                                           (bitWidth query)
#define FFSM2_ENABLE_PLANS
#define FFSM2_ENABLE_SERIALIZATION
#ifndef VC_CAP
#define VC_CAP 3
#endif
#if defined(VH_DEV) && VH_DEV
#include <ffsm2/machine_dev.hpp>
#else
#include <ffsm2/machine.hpp>
#endif
#include <cstdio>
#include <cstring>
#include <fstream>
#include <iostream>
#include <sstream>
#include <string>
#include <new>

using namespace ffsm2;
using namespace ffsm2::detail;

static std::string out;
static void i(long v) { char t[24]; std::snprintf(t, sizeof t, "%ld", v); out += t; }
static void kv(const char* k, long v, bool comma = true) { out += '"'; out += k; out += "\":"; i(v); if (comma) out += ','; }

// ---- plan through a machine
using PCfg = Config::ManualActivation::TaskCapacityN<VC_CAP>;
using PM = MachineT<PCfg>;
struct PA; struct PB;
using PFSM = PM::PeerRoot<PA, PB>;
struct PA : PFSM::State {};
struct PB : PFSM::State {};

static PFSM::Instance* g_pm = nullptr;
alignas(16) static unsigned char g_pmStore[sizeof(PFSM::Instance)];

static void planOrder() {
	out += "\"order\":[";
	auto plan = g_pm->plan();
	int n = 0;
	for (auto it = plan.begin(); it; ++it) {
		if (n++) out += ',';
		out += '['; i(it._curr); out += ','; i(it->origin); out += ','; i(it->destination); out += ']';
		if (n > 300) break;
	}
	out += "]";
}

// ---- bit array
static const unsigned BCAP = VC_CAP;
using BA = BitArrayT<BCAP>;
static BA g_ba;
static BA maskOf(int k) {
	BA m; m.clear();
	for (unsigned x = 0; x < BCAP; ++x) {
		const bool in = k == 0 ? x % 2 == 0 : k == 1 ? x % 3 == 1 : k == 2 ? x != BCAP - 1 : false;
		if (in) m.set(x);
	}
	return m;
}
static void baObs() {
	out += "\"bits\":["; bool first = true;
	for (unsigned x = 0; x < BCAP; ++x) if (g_ba.get(x)) { if (!first) out += ','; i(x); first = false; }
	out += "],"; kv("empty", g_ba.empty() ? 1 : 0, false);
}

// ---- arrays
static StaticArrayT<int, VC_CAP> g_sa;
static DynamicArrayT<int, VC_CAP> g_da, g_db;
static void arObs() {
	const DynamicArrayT<int, VC_CAP>& cda = g_da;
	out += "\"sa\":["; { int n = 0; for (const int& v : g_sa) { if (n++) out += ','; i(v); } }
	out += "],\"da\":["; { int n = 0; for (const int& v : g_da) { if (n++) out += ','; i(v); } }	// iteration
	out += "],\"dai\":["; { for (unsigned n = 0; n < cda.count(); ++n) { if (n) out += ','; i(cda[n]); } }	// indexing
	out += "],\"db\":["; { int n = 0; for (auto it = g_db.cbegin(); it != g_db.cend(); ++it) { if (n++) out += ','; i(*it); } }
	out += "],"; kv("cnt", g_da.count()); kv("sempty", g_sa.empty() ? 1 : 0); kv("dempty", g_da.empty() ? 1 : 0);
	// the other access forms must agree with the ones above: const / non-const indexing of both arrays, const iteration of the fixed one
	{
		const StaticArrayT<int, VC_CAP>& csa = g_sa;
		int ok = 1; unsigned n = 0;
		for (const int& v : csa) { if (n >= VC_CAP || v != g_sa[n] || csa[n] != v) ok = 0; ++n; }
		if (n != VC_CAP) ok = 0;
		for (unsigned k = 0; k < g_da.count(); ++k) if (g_da[k] != cda[k]) ok = 0;
		kv("forms", ok, false);
	}
}

// ---- bit stream
using SBuf = StreamBufferT<VC_CAP>;
using WS = BitWriteStreamT<VC_CAP>;
using RS = BitReadStreamT<VC_CAP>;
static SBuf g_buf;
alignas(8) static unsigned char g_wsStore[sizeof(WS)], g_rsStore[sizeof(RS)];
static WS* g_ws = nullptr; static RS* g_rs = nullptr;

template <int W> struct WDisp {
	static void write(WS& s, int w, uint32_t v) { if (w == W) s.template write<W>(static_cast<UBitWidth<W>>(v)); else WDisp<W - 1>::write(s, w, v); }
	static uint32_t read(RS& s, int w) { return w == W ? static_cast<uint32_t>(s.template read<W>()) : WDisp<W - 1>::read(s, w); }
};
template <> struct WDisp<0> { static void write(WS&, int, uint32_t) {} static uint32_t read(RS&, int) { return 0; } };

static void bsObs() {
	out += "\"bytes\":[";
	for (unsigned n = 0; n < sizeof(g_buf.data()); ++n) { if (n) out += ','; i(g_buf.data()[n]); }
	out += "],"; kv("wcur", g_ws ? g_ws->cursor() : 0); kv("rcur", g_rs ? g_rs->cursor() : 0, false);
}

int main(int argc, char** argv) {
	if (argc < 3) return 2;
	std::ifstream file; std::istream* in = &std::cin;
	if (std::strcmp(argv[1], "-") != 0) { file.open(argv[1]); if (!file) return 2; in = &file; }
	out += "{\"e\":\"cfg\","; kv("cap", VC_CAP, false); out += "}\n";
	std::string line;
	while (std::getline(*in, line)) {
		if (line.empty() || line[0] == '#') continue;
		std::stringstream ss(line);
		std::string c, op; long a = 0, b = 0, d = 0;
		ss >> c >> op; if (!(ss >> a)) a = 0; if (!(ss >> b)) b = 0; if (!(ss >> d)) d = 0;
		out += "{\"e\":\"op\",\"c\":\""; out += c; out += "\",\"op\":\""; out += op; out += "\","; kv("a", a); kv("b", b); kv("d", d);
		long r = 0;
		if (c == "plan") {
			if (op == "new") { if (g_pm) { if (g_pm->isActive()) g_pm->exit(); g_pm->~InstanceT(); } std::memset(g_pmStore, 0xAA, sizeof g_pmStore); g_pm = new (g_pmStore) PFSM::Instance{}; g_pm->enter(); }
			else if (op == "append") r = g_pm->plan().change(static_cast<StateID>(a), static_cast<StateID>(b)) ? 1 : 0;
			else if (op == "remove") { auto plan = g_pm->plan(); long n = 1; for (auto it = plan.begin(); it; ++it, ++n) if (n == a) { it.remove(); r = 1; break; } }
			else if (op == "sweep") {		// one complete iteration; the task at the k-th visited position is removed through the iterator iff bit k-1 of a is set
				auto plan = g_pm->plan(); long n = 0;
				out += "\"vis\":[";
				for (auto it = plan.begin(); it; ++it, ++n) {
					if (n) out += ',';
					out += '['; i(it._curr); out += ','; i(it->origin); out += ','; i(it->destination); out += ']';
					if (n < 16 && ((a >> n) & 1)) it.remove();
					if (n > 300) break;
				}
				out += "],"; r = n;
			}
			else if (op == "clear") g_pm->plan().clear();
			else if (op == "dataclear") { g_pm->exit(); g_pm->enter(); }
			kv("r", r); planOrder();
		} else if (c == "ba") {
			if (op == "new") { new (&g_ba) BA{}; }
			else if (op == "set") g_ba.set(static_cast<unsigned>(a));
			else if (op == "clear") g_ba.clear(static_cast<unsigned>(a));
			else if (op == "setall") g_ba.set();
			else if (op == "clearall") g_ba.clear();
			else if (op == "and") g_ba &= maskOf(static_cast<int>(a));
			kv("r", 0); baObs();
		} else if (c == "ar") {
			if (op == "new") { new (&g_sa) StaticArrayT<int, VC_CAP>{}; new (&g_da) DynamicArrayT<int, VC_CAP>{}; new (&g_db) DynamicArrayT<int, VC_CAP>{}; }
			else if (op == "snew") { new (&g_sa) StaticArrayT<int, VC_CAP>{static_cast<int>(a)}; }		// the filler constructor
			else if (op == "sset") g_sa[a] = static_cast<int>(b);
			else if (op == "sfill") g_sa.fill(static_cast<int>(a));
			else if (op == "sclear") g_sa.clear();
			else if (op == "demplace") r = g_da.emplace(static_cast<int>(a));
			else if (op == "dclear") g_da.clear();
			else if (op == "dpush") { const int v = static_cast<int>(a); g_da += v; }
			else if (op == "dpushm") g_da += static_cast<int>(a);
			else if (op == "bemplace") r = g_db.emplace(static_cast<int>(a));
			else if (op == "bclear") g_db.clear();
			else if (op == "dappend") g_da += g_db;
			else if (op == "dchain") { const int v = static_cast<int>(a); (g_da += v) += static_cast<int>(b); }		// chained through the operators' results
			else if (op == "dchaina") { (g_da += static_cast<int>(a)) += g_db; }
			kv("r", r); arObs();
		} else if (c == "bs") {
			if (op == "new") { std::memset(&g_buf, 0x5A, sizeof g_buf); g_ws = new (g_wsStore) WS{g_buf}; g_rs = new (g_rsStore) RS{g_buf}; }
			// streams opened at a start cursor (any bit offset) over a buffer that still holds other data (all ones)
			else if (op == "newat") { std::memset(&g_buf, 0xFF, sizeof g_buf); g_ws = new (g_wsStore) WS{g_buf, static_cast<Long>(a)}; g_rs = new (g_rsStore) RS{g_buf, static_cast<Long>(a)}; }
			else if (op == "write") WDisp<32>::write(*g_ws, static_cast<int>(a), static_cast<uint32_t>(b) | (static_cast<uint32_t>(d) << 16));
			else if (op == "read") { const uint32_t v = WDisp<32>::read(*g_rs, static_cast<int>(a)); out += "\"rv\":["; i(v & 0xFFFF); out += ','; i(v >> 16); out += "],"; }
			if (op != "read") out += "\"rv\":[0,0],";
			kv("r", 0); bsObs();
		} else if (c == "bw") {
			const uint32_t v = static_cast<uint32_t>(a) | (static_cast<uint32_t>(b) << 16);
			(void) op; kv("r", bitWidth(v), false);
		}
		out += "}\n";
	}
	out += "{\"e\":\"end\"}\n";
	FILE* f = std::fopen(argv[2], "w"); if (!f) return 2;
	std::fwrite(out.data(), 1, out.size(), f); std::fclose(f);
	return 0;
}
