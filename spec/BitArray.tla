------------------------------ MODULE BitArray ------------------------------
(***************************************************************************)
(* Byte/mask level model of BitArrayT<CapB> (containers/bit_array.inl) and *)
(* the set of integers below the capacity it must behave like.             *)
(***************************************************************************)
EXTENDS Naturals, Sequences, FiniteSets, TLC

CONSTANTS CapB,     \* capacity in bits
          Masks     \* set of index sets used as right-hand sides of &=

Units == (CapB + 7) \div 8
Idx == 0 .. (CapB - 1)

RECURSIVE P2(_)
P2(n) == IF n = 0 THEN 1 ELSE 2 * P2(n - 1)
BitOf(byte, k) == (byte \div P2(k)) % 2

BAInit == [st |-> [u \in 0 .. (Units - 1) |-> 0], abs |-> {}]

Get(b, i) == BitOf(b.st[i \div 8], i % 8) = 1
SetBit(b, i) == [b EXCEPT !.st[i \div 8] = IF BitOf(@, i % 8) = 1 THEN @ ELSE @ + P2(i % 8), !.abs = @ \cup {i}]
ClearBit(b, i) == [b EXCEPT !.st[i \div 8] = IF BitOf(@, i % 8) = 1 THEN @ - P2(i % 8) ELSE @, !.abs = @ \ {i}]
\* set(): every unit 0xFF, then the padding bits of the last unit are masked off
SetAll(b) == [b EXCEPT !.st = [u \in 0 .. (Units - 1) |-> IF u = Units - 1 /\ CapB % 8 # 0 THEN P2(CapB % 8) - 1 ELSE 255], !.abs = Idx]
ClearAll(b) == [b EXCEPT !.st = [u \in 0 .. (Units - 1) |-> 0], !.abs = {}]
Empty(b) == \A u \in 0 .. (Units - 1) : b.st[u] = 0
\* byte of a bit array holding exactly the index set m
ByteOf(m, u) == LET ks == {k \in 0 .. 7 : 8 * u + k \in m} IN
                IF ks = {} THEN 0 ELSE LET RECURSIVE Sum(_) Sum(S) == IF S = {} THEN 0 ELSE LET k == CHOOSE k \in S : TRUE IN P2(k) + Sum(S \ {k}) IN Sum(ks)
AndByte(x, y) == LET RECURSIVE A(_) A(k) == IF k = 8 THEN 0 ELSE (IF BitOf(x, k) = 1 /\ BitOf(y, k) = 1 THEN P2(k) ELSE 0) + A(k + 1) IN A(0)
AndAssign(b, m) == [b EXCEPT !.st = [u \in 0 .. (Units - 1) |-> AndByte(b.st[u], ByteOf(m, u))], !.abs = @ \cap m]

Refines(b) == /\ \A i \in Idx : Get(b, i) = (i \in b.abs)
              /\ Empty(b) = (b.abs = {})
              /\ CapB % 8 # 0 => b.st[Units - 1] < P2(CapB % 8)       \* padding bits stay clear

VARIABLES b, lastop
Ops == {[op |-> "set", i |-> i, m |-> {}] : i \in Idx} \cup {[op |-> "clear", i |-> i, m |-> {}] : i \in Idx}
       \cup {[op |-> "setall", i |-> 0, m |-> {}], [op |-> "clearall", i |-> 0, m |-> {}]}
       \cup {[op |-> "and", i |-> 0, m |-> m] : m \in Masks}
Apply(x, o) == CASE o.op = "set" -> SetBit(x, o.i) [] o.op = "clear" -> ClearBit(x, o.i) [] o.op = "setall" -> SetAll(x)
                 [] o.op = "clearall" -> ClearAll(x) [] o.op = "and" -> AndAssign(x, o.m)
Init == b = BAInit /\ lastop = [op |-> "init", i |-> 0, m |-> {}]
Next == \E o \in Ops : b' = Apply(b, o) /\ lastop' = o
InvRefines == Refines(b)
InvIndependent == lastop.op \in {"set", "clear"} => TRUE
StateView == b
MasksFor == {{i \in Idx : i % 2 = 0}, {i \in Idx : i % 3 = 1}, Idx \ {CapB - 1}, {}}
=============================================================================
