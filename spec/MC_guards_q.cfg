CONSTANTS
  N = 2
  L = 2
  Cap = 2
  HasHead = TRUE
  Manual = FALSE
  HasPay = FALSE
  HasPlans = FALSE
  HasSerial = FALSE
  HasHist = TRUE
  HasLog = FALSE
  Verbose = FALSE
  InjCnt <- NoInj
  DefMask <- AllDef
  MaxActs = 2
  WithMonitors = TRUE
  EnvOps <- GuardOpsQ
  EnvActs <- GuardActs
  EnvPoints <- GuardPoints
INIT Init
NEXT Next
VIEW StView
CHECK_DEADLOCK FALSE
INVARIANT TypeOK
INVARIANT MonitorsQuiet
INVARIANT RoundsBounded
INVARIANT IdleClean
INVARIANT ActivityConsistent
INVARIANT PlanWithinCapacity
INVARIANT PrevNamesActive

