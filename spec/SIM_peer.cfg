CONSTANTS
  N = 3
  L = 3
  Cap = 3
  HasHead = FALSE
  Manual = FALSE
  HasPay = TRUE
  HasPlans = TRUE
  HasSerial = TRUE
  HasHist = TRUE
  HasLog = TRUE
  Verbose = TRUE
  InjCnt <- Inj1
  DefMask <- AllDef
  MaxActs = 2
  WithMonitors = TRUE
  EnvOps <- SimOps
  EnvActs <- SimActs
  EnvPoints <- AllPoints
INIT Init
NEXT Next
CHECK_DEADLOCK FALSE
INVARIANT TypeOK
INVARIANT MonitorsQuiet
INVARIANT RoundsBounded
INVARIANT IdleClean
INVARIANT ActivityConsistent
INVARIANT PlanWithinCapacity
