CONSTANTS
  N = 2
  L = 1
  Cap = 2
  HasHead = TRUE
  Manual = FALSE
  HasPay = FALSE
  HasPlans = TRUE
  HasSerial = FALSE
  HasHist = TRUE
  HasLog = FALSE
  Verbose = FALSE
  InjCnt <- Inj1
  DefMask <- AllDef
  MaxActs = 1
  WithMonitors = TRUE
  EnvOps <- InjPlanOps
  EnvActs <- InjPlanActs
  EnvPoints <- InjPlanPoints
INIT Init
NEXT Next
VIEW StView
CHECK_DEADLOCK FALSE
INVARIANT TypeOK
INVARIANT MonitorsQuiet
INVARIANT RoundsBounded
INVARIANT IdleClean
INVARIANT ActivityConsistent
INVARIANT PlanWithinCapacity
INVARIANT PrevNamesActive

