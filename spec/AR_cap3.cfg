CONSTANTS
  CapA = 3
  ElemVals = {0, 1, 2}
INIT Init
NEXT Next
VIEW StateView
CHECK_DEADLOCK FALSE
INVARIANT InvBounded
INVARIANT InvLastStored
INVARIANT InvFill
INVARIANT InvClear
INVARIANT InvOrder
