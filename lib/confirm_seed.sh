#!/bin/bash
# confirm_seed.sh <name> <dir-with-patch.diff-and-demo.cpp>
# Confirms a seeded change in a fresh scratch worktree of /repo: the patch applies, the repository's own suite
# passes with it, the demonstration fails with it and passes without it.  Prints a JSON summary.
name=$1; src=$2
wt=/tmp/confirm_$name
# extra compiler flags may be given in the first line of the demonstration (// ... -DFOO -std=c++14 ...)
xf=$(head -1 $src/demo.cpp | sed 's/([^)]*)//g' | grep -o -- '-D[A-Za-z0-9_=]*\|-std=[a-z+0-9]*\|-pthread' | tr '\n' ' ')
std=-std=c++11; case "$xf" in *-std=*) std= ;; esac
git -C /repo worktree remove --force $wt >/dev/null 2>&1
git -C /repo worktree add -q --detach $wt HEAD || exit 2
cd $wt
g++ $std $xf -I include $src/demo.cpp -o /tmp/confirm_${name}_demo_orig 2>/tmp/confirm_$name.err; c0=$?
if [ $c0 = 0 ]; then timeout 60 /tmp/confirm_${name}_demo_orig >/dev/null 2>&1; r0=$?; else r0=compile_error; fi
git apply $src/patch.diff; ap=$?
cmake -G Ninja -S . -B _build >/dev/null 2>&1
suite=$(cmake --build _build 2>&1 | grep -c "Status: SUCCESS")
g++ $std $xf -I include $src/demo.cpp -o /tmp/confirm_${name}_demo_mut 2>>/tmp/confirm_$name.err; c1=$?
if [ $c1 = 0 ]; then timeout 60 /tmp/confirm_${name}_demo_mut >/dev/null 2>&1; r1=$?; else r1=compile_error; fi
# header regenerated consistently?
(cd tools && python3 join.py); hdr=$(git status --short include | wc -l); hdr2=$(git diff --quiet HEAD -- include && echo same || echo changed)
regen=$(git diff --stat -- include | tail -1)
cd /; git -C /repo worktree remove --force $wt; rm -f /tmp/confirm_${name}_demo_orig /tmp/confirm_${name}_demo_mut
echo "{\"name\":\"$name\",\"patch_applies\":$([ $ap = 0 ] && echo true || echo false),\"suite_passes_with_change\":$([ $suite -ge 1 ] && echo true || echo false),\"demo_exit_without_change\":\"$r0\",\"demo_exit_with_change\":\"$r1\"}"
