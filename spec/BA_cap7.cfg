CONSTANTS
  CapB = 7
  Masks <- MasksFor
INIT Init
NEXT Next
VIEW StateView
CHECK_DEADLOCK FALSE
INVARIANT InvRefines
