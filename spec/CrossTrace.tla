----------------------------- MODULE CrossTrace -----------------------------
(***************************************************************************)
(* Monitors that relate several machine instances of one recorded          *)
(* execution (the trace holds all events in recording order, tagged with   *)
(* the instance id i):                                                     *)
(*  C17  lanes: instances constructed over different memory contents and   *)
(*       copy-constructed instances, fed the same calls and the same       *)
(*       callback decisions, must produce the same events; a copy must     *)
(*       observe like its source at the moment of copying;                 *)
(*  C16  a lane that never has a logger attached must produce the same     *)
(*       events apart from the log records;                                *)
(*  C11  a replica driven only by replayEnter / replayTransition with the  *)
(*       authority's previousTransition() must show the authority's        *)
(*       active state after every step and must never consult guards;      *)
(*  C12  loading a saved buffer leaves the loader with the saver's         *)
(*       activity; equal buffers iff equal activity.                       *)
(***************************************************************************)
EXTENDS Naturals, Sequences, FiniteSets, TLC, Json, IOUtils

TraceLog == ndJsonDeserialize(IOEnv.TRACE)
NONE == 255
Inst == 0 .. 5

VARIABLES l, mode, ref, pos, cmpi, nolog, copies, feat, lastobs, saved, seen, csrc, xload, rop, bad, done
xvars == <<l, mode, ref, pos, cmpi, nolog, copies, feat, lastobs, saved, seen, csrc, xload, rop, bad, done>>

NoObs == [act |-> NONE, ia |-> <<>>, on |-> 0, prev |-> <<255, 255, 0>>, plan |-> <<>>, pne |-> 0, pfirst |-> <<255, 255, 0>>, plast |-> <<255, 255, 0>>]
ObsOf(e) == [act |-> e.act, ia |-> e.ia, on |-> e.on, prev |-> e.prev, plan |-> e.plan, pne |-> e.pne, pfirst |-> e.pfirst, plast |-> e.plast]

Init == /\ l = 1 /\ mode = "none" /\ ref = <<>> /\ pos = 0 /\ cmpi = NONE /\ nolog = {2} /\ copies = {} /\ feat = FALSE
        /\ lastobs = [i \in Inst |-> NoObs] /\ saved = [bytes |-> 0 - 1, act |-> NONE] /\ seen = {} /\ csrc = NONE /\ xload = 999 /\ rop = "" /\ bad = {} /\ done = FALSE

StripActs(acts) == [q \in 1 .. Len(acts) |-> [acts[q] EXCEPT !.lg = <<>>]]
\* an event with everything removed that may legitimately differ between lanes
Norm(e, logs) ==
    CASE e.e = "call" -> IF e.op = "ctor" THEN [e EXCEPT !.i = 0, !.a = 0, !.b = 0, !.p = IF logs THEN 0 ELSE @]
                         ELSE IF e.op \in {"copy", "move"} THEN [e EXCEPT !.i = 0, !.a = 0] ELSE [e EXCEPT !.i = 0]
      [] e.e = "cb"   -> IF logs THEN [e EXCEPT !.i = 0, !.pre = <<>>, !.acts = StripActs(@)] ELSE [e EXCEPT !.i = 0]
      [] e.e = "ret"  -> IF logs THEN [e EXCEPT !.i = 0, !.pre = <<>>] ELSE [e EXCEPT !.i = 0]
      [] OTHER -> e

\* feature twins: what only the added feature lets a program see is not part of "the program's observable behaviour" - a program that
\* does not use the transition history cannot look at previousTransition(), which reads empty in the build without it
NormF(e, logs, ft) ==
    LET n == Norm(e, logs) IN
    IF ~ft THEN n
    ELSE CASE e.e = "cb"  -> [n EXCEPT !.cprev = <<255, 255, 0>>]
           [] e.e = "ret" -> [n EXCEPT !.prev = <<255, 255, 0>>]
           [] OTHER -> n

Find(p, why) == IF \E b \in bad : b[1] = p THEN bad ELSE bad \cup {<<p, l, why>>}

Step ==
    /\ ~done /\ l <= Len(TraceLog)
    /\ l' = l + 1 /\ UNCHANGED done
    /\ LET e == TraceLog[l] IN
       CASE e.e = "cfg" ->
                /\ mode' = "none" /\ ref' = <<>> /\ pos' = 0 /\ cmpi' = NONE /\ nolog' = {2} /\ copies' = {} /\ feat' = FALSE
                /\ lastobs' = [i \in Inst |-> NoObs] /\ saved' = [bytes |-> 0 - 1, act |-> NONE] /\ seen' = {} /\ csrc' = NONE /\ xload' = 999 /\ rop' = ""
                /\ UNCHANGED bad
         [] e.e = "mark" ->
                \* "twins": instance 1 is the same program built without the log interface, fed the same calls and decisions
                \* "feat": instance 1 is the same program built with an additional feature it does not use (C19)
                /\ mode' = (IF e.k \in {"twins", "feat"} THEN "lanes" ELSE e.k) /\ nolog' = (IF e.k = "twins" THEN {1} ELSE IF e.k = "feat" THEN {} ELSE nolog)
                /\ feat' = (e.k = "feat")
                /\ UNCHANGED <<ref, pos, cmpi, copies, lastobs, saved, seen, csrc, xload, rop, bad>>
         [] e.e \in {"call", "cb", "ret"} ->
                LET i == e.i
                    \* ---- lanes
                    leader == mode = "lanes" /\ i = 0
                    follower == mode = "lanes" /\ i # 0
                    newburst == e.e = "call"
                    p1 == IF follower THEN (IF newburst THEN 1 ELSE pos + 1) ELSE 0
                    logs == i \in nolog
                    isCopy == e.e = "call" /\ e.op \in {"copy", "move"}
                    comparable == follower /\ ~isCopy /\ csrc = NONE /\ ~(e.e # "call" /\ cmpi # i)
                    short == mode = "lanes" /\ newburst /\ cmpi \in Inst /\ pos > 0 /\ pos < Len(ref)      \* the previous follower stopped early
                    mismatch == comparable /\ (p1 > Len(ref) \/ NormF(ref[p1], logs, feat) # NormF(e, logs, feat))
                    b1 == IF mismatch \/ short
                          \* a lane that never had a logger and is not itself a copy differs only in the logger: C16; a copy (of any lane) that
                          \* departs from the common history is attributed to copying (its logger-less source is compared on its own)
                          THEN (IF feat THEN Find("C19", "a program behaves differently when a feature it does not use is compiled in (same calls, same callback decisions)")
                                ELSE IF (IF short THEN cmpi \in nolog \ copies ELSE logs /\ i \notin copies) THEN Find("C16", "an instance that never had a logger attached behaves differently from its logged twin (same calls, same callback decisions)")
                                ELSE Find("C17", "two instances given the same calls and callback decisions behave differently (memory contents at construction / copy)"))
                          ELSE bad
                    \* ---- copies observe like their source
                    b2 == IF e.e = "ret" /\ e.op \in {"copy", "move"} /\ csrc \in Inst /\ ObsOf(e) # lastobs[csrc]
                          THEN IF \E b \in b1 : b[1] = "C17" THEN b1 ELSE b1 \cup {<<"C17", l, "a copy-constructed machine does not observe like its source at the moment of copying">>}
                          ELSE b1
                    \* ---- replica
                    b3 == IF mode = "replica" /\ i = 1 /\ e.e = "cb" /\ e.m \in {1, 11} /\ rop \in {"rt", "re"}
                          THEN IF \E b \in b2 : b[1] = "C11" THEN b2 ELSE b2 \cup {<<"C11", l, "replay consulted a guard on the replica">>}
                          ELSE b2
                    b4 == IF mode = "replica" /\ i = 1 /\ e.e = "ret" /\ e.op \in {"rt", "re", "obs"} /\ e.act # lastobs[0].act
                          THEN IF \E b \in b3 : b[1] = "C11" THEN b3 ELSE b3 \cup {<<"C11", l, "the replica's active state differs from the authority's after replaying previousTransition()">>}
                          ELSE b3
                    \* ---- save / load
                    enc == IF lastobs[i].act = NONE THEN 0 ELSE 1 + 2 * lastobs[i].act
                    b5 == IF e.e = "ret" /\ e.op = "save" /\ \E s \in seen : (s[1] = e.r) # (s[2] = e.act)
                          THEN IF \E b \in b4 : b[1] = "C12" THEN b4 ELSE b4 \cup {<<"C12", l, "two machines produce equal buffers although their activity differs (or different buffers for equal activity)">>}
                          ELSE b4
                    b6 == IF e.e = "ret" /\ e.op = "load" /\ xload # 999 /\ e.act # xload
                          THEN IF \E b \in b5 : b[1] = "C12" THEN b5 ELSE b5 \cup {<<"C12", l, "load() of a saved buffer did not leave the loader with the saver's activity">>}
                          ELSE b5
                IN  /\ bad' = b6
                    /\ rop' = IF e.e = "call" /\ i = 1 THEN e.op ELSE rop
                    /\ csrc' = IF isCopy THEN e.a ELSE IF e.e = "ret" THEN NONE ELSE csrc
                    /\ xload' = IF e.e = "call" /\ e.op = "load" /\ e.a = saved.bytes THEN saved.act ELSE IF e.e = "ret" THEN 999 ELSE xload
                    /\ ref' = IF leader THEN (IF newburst THEN <<e>> ELSE Append(ref, e)) ELSE ref
                    /\ pos' = IF comparable THEN p1 ELSE 0
                    /\ cmpi' = IF follower /\ newburst THEN i ELSE cmpi
                    /\ nolog' = IF isCopy /\ e.a \in nolog THEN nolog \cup {i} ELSE nolog
                    /\ copies' = IF isCopy THEN copies \cup {i} ELSE copies
                    /\ UNCHANGED feat
                    /\ lastobs' = IF e.e = "ret" THEN [lastobs EXCEPT ![i] = ObsOf(e)] ELSE lastobs
                    /\ saved' = IF e.e = "ret" /\ e.op = "save" THEN [bytes |-> e.r, act |-> e.act] ELSE saved
                    /\ seen' = IF e.e = "ret" /\ e.op = "save" THEN seen \cup {<<e.r, e.act>>} ELSE seen
                    /\ UNCHANGED mode
         [] OTHER -> UNCHANGED <<mode, ref, pos, cmpi, nolog, copies, feat, lastobs, saved, seen, csrc, xload, rop, bad>>

Finish == /\ ~done /\ l > Len(TraceLog) /\ done' = TRUE
          /\ PrintT(<<"MONITOR-FINDINGS", bad>>)
          /\ UNCHANGED <<l, mode, ref, pos, cmpi, nolog, copies, feat, lastobs, saved, seen, csrc, xload, rop, bad>>

Next == Step \/ Finish
=============================================================================
