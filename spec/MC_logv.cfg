CONSTANTS
  N = 3
  L = 1
  Cap = 2
  HasHead = FALSE
  Manual = FALSE
  HasPay = FALSE
  HasPlans = TRUE
  HasSerial = FALSE
  HasHist = TRUE
  HasLog = TRUE
  Verbose = TRUE
  InjCnt <- NoInj
  DefMask <- SparseDef
  MaxActs = 1
  WithMonitors = TRUE
  EnvOps <- LogOps
  EnvActs <- LogActs
  EnvPoints <- LogPoints
INIT Init
NEXT Next
VIEW StView
CHECK_DEADLOCK FALSE
INVARIANT TypeOK
INVARIANT MonitorsQuiet
INVARIANT RoundsBounded
INVARIANT IdleClean
INVARIANT ActivityConsistent
INVARIANT PlanWithinCapacity
INVARIANT PrevNamesActive

