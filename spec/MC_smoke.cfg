CONSTANTS
  N = 3
  L = 2
  Cap = 2
  HasHead = TRUE
  Manual = FALSE
  HasPay = FALSE
  HasPlans = TRUE
  HasSerial = TRUE
  HasHist = TRUE
  HasLog = FALSE
  Verbose = FALSE
  InjCnt <- NoInj
  DefMask <- AllDef
  EnvOps <- SmokeOps
  EnvActs <- SmokeActs
  MaxActs = 1
  WithMonitors = TRUE
INIT Init
NEXT Next
VIEW StView
INVARIANT TypeOK
INVARIANT MonitorsQuiet
CHECK_DEADLOCK FALSE
