CONSTANTS
  N = 3
  L = 1
  Cap = 2
  HasHead = TRUE
  Manual = FALSE
  HasPay = FALSE
  HasPlans = TRUE
  HasSerial = FALSE
  HasHist = TRUE
  HasLog = FALSE
  Verbose = FALSE
  InjCnt <- NoInj
  DefMask <- AllDef
  MaxActs = 1
  WithMonitors = TRUE
  EnvOps <- PlanOpsT
  EnvActs <- PlanActs
  EnvPoints <- PlanPoints
INIT Init
NEXT Next
VIEW StView
CHECK_DEADLOCK FALSE
INVARIANT TypeOK
INVARIANT MonitorsQuiet
INVARIANT RoundsBounded
INVARIANT IdleClean
INVARIANT ActivityConsistent
INVARIANT PlanWithinCapacity
INVARIANT PrevNamesActive

