CONSTANTS
  CapS = 24
  Widths <- WSmall
  MaxFields = 4
INIT BSInit
NEXT Next
CHECK_DEADLOCK FALSE
INVARIANT InvPacked
INVARIANT InvRoundTrip
