"""The common pool: harness profiles x scenario scripts, run on the real code and validated by TLC
(conformance with FFSM2.tla, then the per-property monitors).  Results are cached per tree/spec/seed."""
import itertools
import json
import re
import os
import random
import shutil
import time
from concurrent.futures import ThreadPoolExecutor

import traceprep
import vlib

PROFILES = {
    # name: profile (see vlib.profile_flags)
    "core3":    dict(N=3, L=2, cap=2, head=1, manual=0, pay=0, ctx=0, feat="PSHG"),
    "core3dev": dict(N=3, L=2, cap=5, head=1, manual=0, pay=0, ctx=0, feat="PSHG", dev=1, constcb=1),       # (more tasks than states)
    "peer4m":   dict(N=4, L=3, cap=0, head=0, manual=1, pay=4, ctx=1, feat="PSHG", cfgorder=2),
    "tiny2v":   dict(N=2, L=1, cap=3, head=0, manual=0, pay=5, ctx=2, feat="PSHGV", cfgorder=3),
    "inj3m":    dict(N=3, L=4, cap=0, head=1, manual=1, pay=2, ctx=3, feat="PSHG", inj=(1, 2, 1, 3), cfgorder=1, constcb=1),
    "sparse3i": dict(N=3, L=2, cap=0, head=1, manual=0, pay=0, ctx=0, feat="PHG", inj=(0, 0, 1, 0), defmode=2),      # state 1: one injection, sparse own callbacks (no reenter of its own)
    "virt3":    dict(N=3, L=2, cap=2, head=1, manual=0, pay=0, ctx=0, feat="PG", inj=(1, 1, 2, 0), virt=1),       # injected callbacks declared virtual, overridden by the states
    "sparse5":  dict(N=5, L=2, cap=0, head=1, manual=0, pay=1, ctx=1, feat="PSHG", defmode=1, dev=1, cfgorder=3, constcb=1),
    "one1v":    dict(N=1, L=2, cap=0, head=1, manual=1, pay=3, ctx=0, feat="PSHGV", defmode=2),
    "big9":     dict(N=9, L=7, cap=3, head=1, manual=0, pay=7, ctx=1, feat="PSHG", cfgorder=2),
    "man3":     dict(N=3, L=2, cap=2, head=1, manual=1, pay=0, ctx=0, feat="PSHG"),
    "nolog3":   dict(N=3, L=2, cap=2, head=1, manual=1, pay=0, ctx=0, feat="PSH", cfgorder=1, script_seed="man3"),      # twin of man3 without the log interface
    "plain3":   dict(N=3, L=1, cap=0, head=1, manual=0, pay=0, ctx=3, feat="", cfgorder=3),
    "tour2":    dict(N=2, L=1, cap=1, head=1, manual=0, pay=0, ctx=0, feat="H"),      # constants of spec/MC_tour.cfg: replays tours of the model graph
    "all4":     dict(N=4, L=2, cap=4, head=1, manual=1, pay=4, ctx=2, feat="AG", std="c++17", cfgorder=2),
    # wide machines: every property's monitors also at state counts where the halved state list is deep, ids need 7 / 8 bits,
    # the serial buffer grows to two bytes and the plan storage is large (the enumerated families use first / middle / last id)
    "wide64":   dict(N=64, L=2, cap=3, head=1, manual=0, pay=1, ctx=0, feat="PSHG", spread=1, nosim=1, cfgorder=3),
    "wide128":  dict(N=128, L=3, cap=0, head=0, manual=1, pay=6, ctx=1, feat="PSHG", spread=1, nosim=1, cfgorder=2),
    "wide255":  dict(N=255, L=2, cap=4, head=1, manual=1, pay=0, ctx=0, feat="PSHGV", spread=1, nosim=1, dev=1),
    "wide17":   dict(N=17, L=2, cap=0, head=0, manual=0, pay=2, ctx=3, feat="PSHG", spread=1),
    "wide33":   dict(N=33, L=4, cap=5, head=1, manual=1, pay=4, ctx=2, feat="PSHGV", spread=1, nosim=1),
    "wide129":  dict(N=129, L=2, cap=2, head=1, manual=0, pay=0, ctx=0, feat="PSH", spread=1, nosim=1),
    "wide200":  dict(N=200, L=2, cap=0, head=0, manual=1, pay=1, ctx=1, feat="PSHG", spread=1, nosim=1, dev=1),
}

QUICK_PROFILES = ["core3", "core3dev", "peer4m", "tiny2v", "inj3m", "virt3", "sparse3i", "sparse5", "one1v", "big9", "man3", "nolog3", "plain3", "all4", "tour2",
                  "wide64", "wide128", "wide255"]
THOROUGH_PROFILES = QUICK_PROFILES + ["wide17", "wide33", "wide129", "wide200"]


def feat_has(p, c):
    f = p.get("feat", "")
    return c in f or (c in "PSHRD" and "A" in f) or (c == "G" and "V" in f)


# ----------------------------------------------------------------------------- scenario generators

def gen_random(seed, count, nops, scenarios=(0, 1, 2, 3), kinds=0xFFFF, pct=35):
    lines = []
    for sc in scenarios:
        for k in range(count):
            lines.append("reset")
            lines.append("rnd %d %d %d %d %d" % (seed * 1000 + sc * 100 + k, nops, sc, kinds, pct))
    return "\n".join(lines) + "\n"


def _states(p):
    """the states the enumerated families range over: the first three, or - for wide machines - first, middle and last id"""
    N = p["N"]
    if p.get("spread") and N > 3:
        return [0, N // 2, N - 1]
    return list(range(min(N, 3)))


def _activate(p, logger=0, fill=0):
    ls = ["reset", "@0 ctor %d 7 %d" % (fill, logger)]
    if p.get("manual"):
        ls.append("@0 enter")
    return ls


def _key(m, s, j=0):
    return "%d.%d.%d" % (m, s, j)


def gen_guard_enum(p, rng, limit):
    """every combination of guard decisions over successive rounds, from several request sources"""
    N, L = p["N"], p["L"]
    rounds = min(L + 1, 3)
    plans = feat_has(p, "P")
    states = _states(p)
    dec = ["pass", "exitX", "entryX"] + ["entryT%d" % e for e in states] + ["entryXT%d" % e for e in states] + ["exitT%d" % e for e in states]
    cases = []
    for a in states[:2]:
        for d in states:
            for combo in itertools.product(dec, repeat=rounds):
                cases.append((a, d, combo))
    rng.shuffle(cases)
    out = []
    for idx, (a, d, combo) in enumerate(cases[:limit]):
        ls = _activate(p, logger=idx % 2)
        if a != 0:
            ls.append("@0 ito %d" % a)
        ds = []     # keyed decisions
        pend = d
        for r, c in enumerate(combo):
            if pend is None:
                break
            nxt = None
            if c == "pass":
                pass
            elif c == "exitX":
                ds.append(_key(11, a) + ":X")
                ds_entry = None
            elif c.startswith("exitT"):
                e = int(c[5:]); ds.append(_key(11, a) + ":T%d" % e); nxt = e
            elif c == "entryX":
                ds.append(_key(11, a) + ":"); ds.append(_key(1, pend) + ":X")
            elif c.startswith("entryXT"):
                e = int(c[7:]); ds.append(_key(11, a) + ":"); ds.append(_key(1, pend) + ":X,T%d" % e); nxt = e
            elif c.startswith("entryT"):
                e = int(c[6:]); ds.append(_key(11, a) + ":"); ds.append(_key(1, pend) + ":T%d" % e); nxt = e
            if c in ("pass",) or c.startswith("exitT"):
                # the exit guard passed (possibly redirecting): the entry guard of pend is consulted and does nothing
                if c == "pass":
                    ds.append(_key(11, a) + ":")
                ds.append(_key(1, pend) + ":")
            pend = nxt
        src = idx % (3 if plans else 2)
        pay = p.get("pay") and idx % 4 >= 2         # payload-carrying requests and redirects in half of the cases
        if pay:
            tok = 1 + (idx + (1 if idx % 8 >= 6 else 0)) % 3        # (every fourth of them forwards the token of the request it redirects)
            ds = [re.sub(r"T(\d+)", lambda m: "W%s.%d" % (m.group(1), tok), x) for x in ds]
        if src == 0:
            ls.append(("@0 iwith %d 0 %d | %s" % (d, 1 + (idx + 1) % 3, " ; ".join(ds))) if pay else ("@0 ito %d | %s" % (d, " ; ".join(ds))))
        elif src == 1:
            if pay and idx % 8 >= 6:    # a request with the same token is already waiting: the callback's changeWith() may forward that request's own payload object
                ls.append("@0 with %d 0 %d" % ((d + 1) % len(states), 1 + (idx + 1) % 3))
            ls.append("@0 update | %s" % " ; ".join([_key(5, a) + (":W%d.%d" % (d, 1 + (idx + 1) % 3) if pay else ":T%d" % d)] + ds))
        else:
            ls.append("@0 pc %d %d" % (a, d))
            ls.append("@0 update | %s" % " ; ".join([_key(4, a) + ":S"] + ds))
        ls.append("@0 update")
        out += ls
    return "\n".join(out) + "\n"


def gen_activation_enum(p, rng, limit):
    """redirects and vetoes during activation (initial entry guards)"""
    N, L = p["N"], p["L"]
    states = _states(p)
    head = p.get("head", 1)
    dec = ["pass", "X"] + ["T%d" % e for e in states] + ["XT%d" % e for e in states]
    if head:
        dec += ["rootX", "rootT1" if N > 1 else "rootT0"]
    rounds = min(L + 1, 3)
    cases = list(itertools.product(dec, repeat=rounds))
    rng.shuffle(cases)
    out = []
    for combo in cases[:limit]:
        ds = []
        pend = 0
        for c in combo:
            if pend is None:
                break
            nxt = None
            if c.startswith("root"):
                if c == "rootX":
                    ds.append(_key(1, 255) + ":X")
                else:
                    e = int(c[5:]); ds.append(_key(1, 255) + ":T%d" % e); ds.append(_key(1, pend) + ":"); nxt = e
            else:
                if head:
                    ds.append(_key(1, 255) + ":")
                if c == "pass":
                    ds.append(_key(1, pend) + ":")
                elif c == "X":
                    ds.append(_key(1, pend) + ":X")
                elif c.startswith("XT"):
                    e = int(c[2:]); ds.append(_key(1, pend) + ":X,T%d" % e); nxt = e
                else:
                    e = int(c[1:]); ds.append(_key(1, pend) + ":T%d" % e); nxt = e
            pend = nxt
        if p.get("pay") and len(out) % 8 >= 4:      # redirects carrying payloads
            ds = [re.sub(r"T(\d+)", lambda m: "W%s.%d" % (m.group(1), 1 + len(out) % 3), x) for x in ds]
        ls = ["reset"]
        if p.get("manual"):
            ls += ["@0 ctor 0 7 0", "@0 enter | %s" % " ; ".join(ds)]
        else:
            ls += ["@0 ctor 0 7 0 | %s" % " ; ".join(ds)]
        ls += ["@0 update"]
        out += ls
    return "\n".join(out) + "\n"


def gen_plan_enum(p, rng, limit):
    """plans of 0..3 tasks (any origins incl. 0, repeated and cyclic), every status pattern, two cycles"""
    if not feat_has(p, "P"):
        return ""
    N = p["N"]
    states = _states(p)
    tasks = [(o, d) for o in states for d in states]
    plans = [()] + [(t,) for t in tasks] + [(t, u) for t in tasks for u in tasks] + \
            [(t, u, v) for t in tasks[:4] for u in tasks[2:6] for v in tasks[4:]]
    status = ["none", "S", "F", "SF", "Sother", "extS", "extF", "rootS", "rootFpost", "Spre_Fpost"]
    cases = [(a, pl, s) for a in states for pl in plans for s in status]
    rng.shuffle(cases)
    out = []
    for idx, (a, pl, s) in enumerate(cases[:limit]):
        ls = _activate(p, logger=idx % 2, fill=idx % 5)
        if a != 0:
            ls.append("@0 ito %d" % a)
        for (o, d) in pl:
            if p.get("pay") and (o + d) % 2:
                ls.append("@0 pw %d %d %d" % (o, d, 1 + (o + d) % 3))
            else:
                ls.append("@0 pc %d %d" % (o, d))
        other = (a + 1) % max(1, len(states))
        ds = {"none": [], "S": [_key(5, a) + ":S"], "F": [_key(5, a) + ":F"], "SF": [_key(4, a) + ":S", _key(6, a) + ":F"],
              "Sother": [_key(5, a) + ":S%d" % other], "rootS": [_key(4, 255) + ":S%d" % a], "rootFpost": [_key(6, 255) + ":F%d" % a],
              "Spre_Fpost": [_key(4, a) + ":S", _key(6, 255) + ":F%d" % other], "extS": [], "extF": []}[s]
        if s == "extS":
            ls.append("@0 succeed %d" % a)
        if s == "extF":
            ls.append("@0 fail %d" % a)
        if pl and idx % 8 == 7:
            # the first task's transition is vetoed and the guard queues another task of the same origin
            ds = ds + [_key(1, pl[0][1]) + ":X,PC%d.%d" % (pl[0][0], (pl[0][1] + 1) % len(states))]
        elif pl and idx % 4 == 3:
            ds = ds + [_key(1, pl[0][1]) + ":X"]          # the first task's transition is vetoed: its origin stays active
        ls.append("@0 update | %s" % " ; ".join(ds))
        if pl and idx % 8 == 7:
            ls.append("@0 update")        # a cycle without any report: nothing may fire from a consumed success
        ls.append("@0 react 1 | %s" % " ; ".join(d.replace("5.", "8.").replace("4.", "7.").replace("6.", "10.") for d in ds))
        ls.append("@0 update")
        out += ls
    return "\n".join(out) + "\n"


def gen_plan_directed(p, rng, limit):
    """clause-by-clause plan histories: a fired task's transition is vetoed and another task of the same origin is queued,
    then cycles without any report; success consumed by firing; origin-0 task ahead of the active origin; outcome repeats"""
    if not feat_has(p, "P"):
        return ""
    N = p["N"]
    states = _states(p)
    out = []
    n = 0
    for a in states:
        for d in states:
            for e in states:
                for veto in ("entry", "exit"):
                    if d == a or n >= limit:
                        continue
                    n += 1
                    ls = _activate(p, logger=n % 2, fill=n % 5)
                    if a != 0:
                        ls.append("@0 ito %d" % a)
                    ls.append("@0 pc %d %d" % (a, d))
                    vk = _key(1, d) if veto == "entry" else _key(11, a)
                    ls.append("@0 update | %s:S ; %s:X,PC%d.%d" % (_key(5, a), vk, a, e))
                    ls += ["@0 update", "@0 react 1", "@0 update | %s:S" % _key(4, a), "@0 update", "@0 update"]
                    out += ls
    # a task whose origin is state 0 ahead of a task of the active state; repeated success without new reports
    for a in states[1:]:
        ls = _activate(p) + ["@0 ito %d" % a, "@0 pc 0 %d" % a, "@0 pc %d 0" % a, "@0 succeed %d" % a, "@0 update", "@0 update",
                             "@0 succeed 0", "@0 update", "@0 update"]
        out += ls
    # load() with several tasks pending (some with payloads), then a fresh payload-free plan in the same slots that runs to completion
    if feat_has(p, "S") and N >= 2:
        for a in states[:2]:
            d = states[1] if a == states[0] else states[0]
            ls = _activate(p)
            if a != 0:
                ls.append("@0 ito %d" % a)
            first = ("@0 pw %d %d 2" % (a, d)) if p.get("pay") else ("@0 pc %d %d" % (a, d))
            third = ("@0 pw %d %d 3" % (a, a)) if p.get("pay") else ("@0 pc %d %d" % (a, a))
            ls += [first, "@0 pc %d %d" % (d, a), third, "@0 save", "@0 load -1", "@0 pc %d %d" % (a, d), "@0 pc %d %d" % (d, a),
                   "@0 update | %s:S" % _key(5, a), "@0 update | %s:S" % _key(5, d), "@0 update | %s:S" % _key(5, a), "@0 update"]
            out += ls
    # reports pending at load(): loading (the same or another state) discards them - a task appended afterwards must wait for a new report
    if feat_has(p, "S") and N >= 2:
        for a in states[:2]:
            d = states[1] if a == states[0] else states[0]
            for rep in ("fail", "succeed"):
                ls = _activate(p)
                if a != 0:
                    ls.append("@0 ito %d" % a)
                ls += ["@0 %s %d" % (rep, a), "@0 %s %d" % (rep, d), "@0 save", "@0 load -1", "@0 pc %d %d" % (a, d), "@0 pc %d %d" % (d, a),
                       "@0 update", "@0 react 1", "@0 ito %d" % d, "@0 update", "@0 update | %s:S" % _key(5, d), "@0 update"]
                out += ls
    # a chain as long as the capacity drained from the front (tasks end up in high slots of the storage and become the first)
    if N >= 2:
        cap = p.get("cap") or N
        if cap <= 12:
            a, d = states[0], states[1]
            ls = _activate(p)
            for k in range(cap + 1):        # (the last append is refused: the plan is full)
                ls.append("@0 pc %d %d" % ((a, d) if k % 2 == 0 else (d, a)))
            for k in range(cap + 2):
                ls.append("@0 update | %s:S ; %s:S" % (_key(5, a), _key(5, d)))
            out += ls
    # reports made while no task has been added since activation - in every phase callback of the active state and of the root, for
    # another (inactive) state - then a plan: the old report must neither fail nor complete it, the origin's own success fires the task
    if N >= 2:
        for a in states[:2]:
            other = states[-1] if states[-1] != a else states[0]
            d = other
            for m in (4, 5, 6, 7, 8, 10):
                for who in ((a, 255) if p.get("head") else (a,)):
                    for rep in ("F", "S"):
                        ls = _activate(p)
                        if a != 0:
                            ls.append("@0 ito %d" % a)
                        call = "@0 update" if m <= 6 else "@0 react 2"
                        ls += ["%s | %s:%s%d" % (call, _key(m, who), rep, other), "@0 react 1", "@0 pc %d %d" % (a, d), "@0 pc %d %d" % (d, a),
                               "@0 succeed %d" % a, "@0 react 3" if m <= 6 else "@0 update", "@0 update | %s:S" % _key(5, d), "@0 update"]
                        out += ls
    # failure processed on an empty plan, then idle cycles (no outcome may repeat without a new report)
    for a in states:
        ls = _activate(p)
        if a != 0:
            ls.append("@0 ito %d" % a)
        ls += ["@0 pc %d %d" % (a, a), "@0 px", "@0 update | %s:F" % _key(5, a), "@0 update", "@0 react 2", "@0 update | %s:S" % _key(5, a), "@0 update"]
        out += ls
    return "\n".join(out) + "\n"


def gen_capacity(p, rng, limit):
    """fill the plan to capacity, overfill, remove at every position, clear, refill - repeatedly"""
    if not feat_has(p, "P"):
        return ""
    N = p["N"]
    cap = p.get("cap") or N
    out = []
    for rep in range(limit):
        ls = _activate(p, fill=rep % 5)
        n = 0
        for step in range(6 * cap + 10):
            c = rng.random()
            if c < 0.55:
                o, d = rng.randrange(N), rng.randrange(N)
                if p.get("pay") and rng.random() < 0.5:
                    ls.append("@0 pw %d %d %d" % (o, d, 1 + rng.randrange(3)))
                else:
                    ls.append("@0 pc %d %d" % (o, d))
            elif c < 0.9:
                ls.append("@0 pr %d" % rng.randrange(cap + 1))
            elif c < 0.95:
                ls.append("@0 px")
            else:
                hi = 1 % N      # (a one-state machine has no state 1: naming it would be outside the contract)
                ls.append("@0 update | 5.0.0:PC0.0,PR0,PC%d.%d ; 6.0.0:PR1,PC0.%d" % (hi, hi, hi))
        out += ls
    return "\n".join(out) + "\n"


def gen_serial_pairs(p, rng, limit):
    """every (saver state, loader state) pair; the loader also has an outstanding request, plan and history"""
    if not feat_has(p, "S"):
        return ""
    N = p["N"]
    manual = p.get("manual", 0)
    sv = list(range(N)) + ([None] if manual else [])
    pairs = [(a, b) for a in sv for b in sv]
    rng.shuffle(pairs)
    out = []
    for idx, (a, b) in enumerate(pairs[:limit]):
        ls = ["reset", "@0 ctor 0 1 0", "@1 ctor 1 2 %d" % (idx % 2)]
        for inst, s in ((0, a), (1, b)):
            if s is None:
                continue
            if manual:
                ls.append("@%d enter" % inst)
            if s != 0:
                ls.append("@%d ito %d" % (inst, s))
        if b is not None:
            if feat_has(p, "P"):
                ls.append("@1 pc %d %d" % (b, (b + 1) % N))
                ls.append("@1 succeed %d" % b)
            ls.append("@1 to %d" % ((b + 1) % N))
        ls += ["@0 save", "@1 load -1 | 2.%d.0:%s" % (a if a is not None else 0, "PC0.0" if feat_has(p, "P") else ""), "@1 save", "@1 update", "@0 update"]
        out += ls
    return "\n".join(out) + "\n"


def gen_lifecycle(p, rng, limit):
    """activation / deactivation / copies / logger attach-detach patterns with simple traffic"""
    N = p["N"]
    out = []
    for idx in range(limit):
        lg = idx % 3
        ls = ["reset", "@0 ctor %d %d %d" % (idx % 5, idx, 1 if lg == 1 else 0)]
        if p.get("manual"):
            ls.append("@0 enter")
        if lg == 2:
            ls.append("@0 attach 1")
        d = rng.randrange(N)
        ls += ["@0 update | 5.0.0:T%d" % d, "@0 react 2", "@0 query 1", ("@1 move 0" if idx % 2 else "@1 copy 0"),
               "@0 ito %d" % rng.randrange(N), "@1 ito %d" % rng.randrange(N), "@0 attach %d" % (idx % 2), "@0 update", "@1 update", "@0 obs", "@1 obs"]
        if feat_has(p, "S"):
            ls += ["@0 save", "@1 save"]
        if feat_has(p, "P") and idx % 3 == 0:
            # a report made while no plan exists, a copy, then the first task on both: the copy must remember the report too
            ls += ["@0 px", "@0 succeed 0", "@0 fail %d" % (N - 1), "@0 ito 0", "mark lanes", "@2 copy 0", "@0 pc 0 %d" % (N - 1), "@2 pc 0 %d" % (N - 1),
                   "@0 update", "@2 update", "@0 update", "@2 update", "mark none", "@2 dtor"]
        if p.get("manual"):
            ls += ["@0 exit", "@0 enter", "@0 update", "@0 exit"]
        ls += ["@0 dtor", "@0 ctor 1 3 0"]
        out += ls
    return "\n".join(out) + "\n"


def scenarios_for(pname, p, tier, seed, exe=None):
    """-> list of (scenario name, script text)"""
    rng = random.Random("%s-%d" % (p.get("script_seed", pname), seed))      # twins share their scripts
    q = tier == "quick" or bool(p.get("spread"))       # wide machines: quick-sized scenario families in both tiers (traces of 255-state machines validate slowly)
    if pname == "tour2":
        import components
        text, info = components.machine_tour_script("MC_tour")
        return [("tour", text)]
    sc = []
    sc.append(("random", gen_random(seed, 3 if q else 20, 50 if q else 140)))
    sc.append(("guards", gen_guard_enum(p, rng, 150 if q else 1500)))
    sc.append(("activation", gen_activation_enum(p, rng, 60 if q else 500)))
    sc.append(("plans", gen_plan_enum(p, rng, 120 if q else 1500)))
    sc.append(("plandirected", gen_plan_directed(p, rng, 24 if q else 200)))
    sc.append(("capacity", gen_capacity(p, rng, 3 if q else 20)))
    sc.append(("serial", gen_serial_pairs(p, rng, 30 if q else 120)))
    sc.append(("lifecycle", gen_lifecycle(p, rng, 12 if q else 60)))
    if exe is not None and not p.get("nosim"):
        # specification -> code: behaviours of FFSM2.tla drawn by TLC at this profile's constants, replayed on the real machine
        import simgen
        text, info = simgen.sim_script(pname, simgen.profile_cfg(exe), 15 if q else 150, 200 if q else 400, seed)
        if info.get("error"):
            raise RuntimeError("simulation export failed for %s: %s" % (pname, info["error"][-800:]))
        sc.append(("specsim", text))
    return [(n, t) for n, t in sc if t.strip()]


# ----------------------------------------------------------------------------- running the pool

# API forms the harness probes beyond the basic ones: a form that is declared but does not compile / link is a finding of the
# property that talks about it (every harness build failure is also a C19 finding through the feature matrix)
API_FORMS = [
    ("C10", re.compile(r"PlanT<.*>::(first|last)\(\)"), "PlanT::first() / last() (mutable plan) are declared but cannot be compiled / linked: "
     "first()/last() are not available consistently with iteration"),
]


def _error_lines(blog, limit=12):
    keep = [ln for ln in blog.splitlines() if "error" in ln or "undefined reference" in ln]
    return "\n".join(ln[:600] for ln in keep[:limit])


def pool_key(tier, seed, names):
    return vlib.sha(vlib.repo_hash(), vlib.harness_hash(), vlib.spec_hash(), tier, str(seed), ",".join(sorted(names)),
                    vlib.file_hash([os.path.abspath(__file__)]))


def run_pool(tier, seed, names=None, force=False):
    """build, run and validate; returns the result dict (also cached on disk)"""
    names = list(names or (QUICK_PROFILES if tier == "quick" else THOROUGH_PROFILES))
    key = pool_key(tier, seed, names)
    cdir = vlib.ensure(os.path.join(vlib.WORK, "pool", key))
    rfile = os.path.join(cdir, "result.json")
    if os.path.exists(rfile) and not force:
        with open(rfile) as f:
            res = json.load(f)
        res["cached"] = True
        return res
    t0 = time.time()
    profs = {n: PROFILES[n] for n in names}
    built = vlib.build_many(profs)
    res = {"key": key, "tier": tier, "seed": seed, "dir": cdir, "profiles": {}, "cached": False,
           "repo_hash": vlib.repo_hash(), "spec_hash": vlib.spec_hash()}
    jobs = []
    for n in names:
        exe, blog = built[n]
        compat = exe is not None and blog.startswith("COMPAT-FALLBACK")
        pr = {"flags": vlib.profile_flags(profs[n]), "built": exe is not None, "compat": compat,
              "build_log": blog[-2000:] if exe is None else (_error_lines(blog) if compat else ""), "runs": {}, "api_findings": []}
        if compat:
            for p_, rx, what in API_FORMS:
                if rx.search(pr["build_log"]):
                    pr["api_findings"].append([p_, what])
        res["profiles"][n] = pr
        if exe is not None:
            jobs.append((n, exe, None))

    def one(job):
        n, exe, scs = job
        scs = scenarios_for(n, profs[n], tier, seed, exe)
        runs = {}
        cat = os.path.join(cdir, "%s.all.tlc.ndjson" % n)
        mcat = os.path.join(cdir, "%s.all.merged.ndjson" % n)
        line = mline = 0
        with open(cat, "w") as catf, open(mcat, "w") as mcatf:
            for sname, text in scs:
                base = os.path.join(cdir, "%s.%s" % (n, sname))
                with open(base + ".script", "w") as f:
                    f.write(text)
                rc, hout = vlib.run_harness(exe, text, base + ".raw.ndjson", timeout=25 if tier == "quick" else 150)   # a hang ends with a "crash" event (SIGALRM)
                nexec = traceprep.write_for_tlc(base + ".raw.ndjson", base + ".tlc.ndjson")
                with open(base + ".tlc.ndjson") as f:
                    data = f.read()
                nlines = data.count("\n")
                catf.write(data)
                traceprep.write_for_tlc(base + ".raw.ndjson", base + ".merged.ndjson", merged=True)
                with open(base + ".merged.ndjson") as f:
                    mdata = f.read()
                mlines = mdata.count("\n")
                mcatf.write(mdata)
                runs[sname] = {"script": base + ".script", "raw": base + ".raw.ndjson", "trace": base + ".tlc.ndjson", "harness_rc": rc,
                               "executions": nexec, "events": nlines, "first_line": line + 1, "last_line": line + nlines,
                               "merged": base + ".merged.ndjson", "first_mline": mline + 1, "last_mline": mline + mlines,
                               "rejected": [], "findings": []}
                line += nlines
                mline += mlines
        v = vlib.validate_robust(cat, "%s.%s" % (key, n), vlib.validate_trace)
        x = vlib.validate_robust(mcat, "%s.%s.x" % (key, n), vlib.validate_cross)

        def owner(ln):
            for sname, r in runs.items():
                if r["first_line"] <= ln <= r["last_line"]:
                    return sname, ln - r["first_line"] + 1
            return None, ln
        for rj in v["rejected"]:
            sname, local = owner(rj["line"])
            if sname:
                runs[sname]["rejected"].append(dict(rj, line=local))
        for (prop, ln, why) in v["findings"]:
            sname, local = owner(ln)
            if sname:
                runs[sname]["findings"].append([prop, local, why])
        for (prop, ln, why) in x["findings"]:
            for sname, r in runs.items():
                if r["first_mline"] <= ln <= r["last_mline"]:
                    r["findings"].append([prop, ln - r["first_mline"] + 1, why + " [merged trace]"])
        for ln in v.get("uninterpretable", []):
            sname, local = owner(ln)
            if sname:
                runs[sname]["rejected"].append({"line": local, "why": "execution cannot be interpreted by the specification / monitors (TLC evaluation error)", "detail": ""})
        return n, runs, {"trace": cat, "events": line, "secs": v["secs"] + x["secs"], "error": v["error"] or x["error"], "accepted": v.get("accepted", False),
                         "uninterpretable": len(v.get("uninterpretable", [])) + len(x.get("uninterpretable", []))}

    with ThreadPoolExecutor(max_workers=max(2, vlib.NCPU - 2)) as ex:
        for n, runs, summ in ex.map(one, jobs):
            res["profiles"][n]["runs"] = runs
            res["profiles"][n]["validation"] = summ
    run_twins(res, cdir, key)
    res["wall_s"] = round(time.time() - t0, 1)
    with open(rfile, "w") as f:
        json.dump(res, f, indent=1)
    prune_pool_cache(5)
    vlib.prune_build_cache()
    import simgen
    simgen.prune()
    return res


TWINS = [("man3", "nolog3", ["guards", "activation", "plans", "capacity"])]


def _bursts(raw_path):
    """executions of a single-instance raw trace as lists of bursts (call .. ret)"""
    segs, _ = traceprep.executions(traceprep.load(raw_path))
    out = []
    for cfg, evs in segs:
        bursts, cur = [], None
        for e in evs:
            if e["e"] == "mark":
                continue
            if e["e"] == "call":
                cur = [e]
                bursts.append(cur)
            elif cur is not None:
                cur.append(e)
        out.append((cfg, bursts))
    return out


def write_twin_trace(raw_a, raw_b, out_path, mark="twins"):
    """interleave the bursts of two builds of the same script: A as instance 0 (leader), B as instance 1"""
    ea, eb = _bursts(raw_a), _bursts(raw_b)
    n = 0
    with open(out_path, "w") as f:
        for (cfga, ba), (cfgb, bb) in zip(ea, eb):
            f.write(json.dumps(cfga, separators=(",", ":")) + "\n")
            f.write('{"e":"mark","k":"%s"}\n' % mark)
            j = 0
            for burst in ba:
                for e in burst:
                    f.write(json.dumps(dict(e, i=0), separators=(",", ":")) + "\n")
                c = burst[0]
                if j < len(bb) and (bb[j][0]["op"], bb[j][0]["a"], bb[j][0]["b"]) == (c["op"], c["a"], c["b"]):
                    for e in bb[j]:
                        f.write(json.dumps(dict(e, i=1), separators=(",", ":")) + "\n")
                    j += 1
            n += 1
    return n


def run_twins(res, cdir, key):
    """the same scripts on a build with and without the log interface must behave identically (CrossTrace, C16)"""
    for a, b, families in TWINS:
        pa, pb = res["profiles"].get(a), res["profiles"].get(b)
        if not pa or not pb or not pa.get("built") or not pb.get("built"):
            continue
        for fam in families:
            ra, rb = pa["runs"].get(fam), pb["runs"].get(fam)
            if not ra or not rb:
                continue
            tw = os.path.join(cdir, "twin.%s.%s.%s.ndjson" % (a, b, fam))
            write_twin_trace(ra["raw"], rb["raw"], tw)
            x = vlib.validate_cross(tw, "%s.twin.%s" % (key, fam))
            rb.setdefault("twin", {})["trace"] = tw
            if x["error"]:
                pb["validation"]["error"] = (pb["validation"].get("error") or "") + x["error"][-500:]
            for (prop, ln, why) in x["findings"]:
                rb["findings"].append([prop, ln, why + " [twin trace %s]" % os.path.basename(tw)])


def prune_pool_cache(keep=6):
    d = os.path.join(vlib.WORK, "pool")
    if not os.path.isdir(d):
        return
    entries = sorted(((os.path.getmtime(os.path.join(d, e)), e) for e in os.listdir(d)), reverse=True)
    for _, e in entries[keep:]:
        shutil.rmtree(os.path.join(d, e), ignore_errors=True)
