------------------------------ MODULE Monitors ------------------------------
(***************************************************************************)
(* Per-property monitors over the event vocabulary shared by the           *)
(* specification (FFSM2!out) and the conformance harness (ndjson trace).   *)
(*                                                                         *)
(* A tracker `tk' is folded over the events of ONE machine instance.  It   *)
(* keeps only what can be derived from observations (what the callbacks    *)
(* did, what the controls and the machine reported) and re-synchronises    *)
(* from the observations wherever a statement does not constrain a value,  *)
(* so that a deviation in one aspect disturbs the other monitors as little *)
(* as possible.  Checks(tk, e, tk2) lists, per property, what the event e  *)
(* violates given the tracker before (tk) and after (tk2) the event.       *)
(*                                                                         *)
(* The same operators run (a) inside the model checker, folded over the    *)
(* events of every behaviour of FFSM2 - no monitor may ever reject - and   *)
(* (b) over traces recorded from the implementation (MonTrace.tla).        *)
(***************************************************************************)
EXTENDS FFSM2

ALLDEF == 32766
FullObs == \A i \in 1 .. (N + 1) : (i = 1 /\ ~HasHead) \/ DefMask[i] = ALLDEF

Last(s) == s[Len(s)]

IsProcOp(op) == op \in {"update", "react", "ito", "iwith"}
IsActOp(op)  == op = "enter" \/ (op = "ctor" /\ ~Manual)      \* activation through initialEnter
PassiveOps   == {"to", "with", "succeed", "fail", "pc", "pw", "px", "pr", "save", "attach", "obs", "query", "copy", "move"}
IsGuard(m)   == m \in {M_ENTRY_GUARD, M_EXIT_GUARD}
IsLife(m)    == m \in {M_ENTER, M_REENTER, M_EXIT}
IsPhase(m)   == m \in {M_PRE_UPDATE, M_UPDATE, M_POST_UPDATE, M_PRE_REACT, M_REACT, M_POST_REACT}
IsPlanCb(m)  == m \in {M_PLAN_SUCCEEDED, M_PLAN_FAILED}

\* The order C15 declares, stated here from the property and NOT taken from the specification (FFSM2!SubOrder), so that the
\* monitor stays what it is when the specification - or the implementation it mirrors - changes: injections I1..Ik then the class
\* itself for entryGuard, enter, reenter, preUpdate, update, preReact, react; the exact reverse for exit, postUpdate, postReact;
\* plan outcomes go to the root class itself only; for exitGuard and query only the members matter (AnyOrder below).
DeclOrder(m, s) ==
    LET k   == Injections(s)
        own == IF Defines(s, m) THEN <<0>> ELSE <<>>
        fwd == [q \in 1 .. k |-> q]
        bwd == [q \in 1 .. k |-> k + 1 - q]
    IN  IF m \in {M_PLAN_SUCCEEDED, M_PLAN_FAILED} THEN own
        ELSE IF m \in {M_EXIT, M_POST_UPDATE, M_POST_REACT} THEN own \o bwd
        ELSE fwd \o own
Order(e) == DeclOrder(e.m, e.s)
\* C16, stated from the property (not FFSM2!LogDefined): a delivery to a class that itself defines the callback must be recorded
\* (every delivery under verbose logging); records are accepted in addition for classes that inherit the callback from an
\* injection and - a measured habit of the library, Appendix B - for the react family and query; nothing else may be recorded
\* callbacks an operation can deliver at all (a method record for anything else corresponds to no delivery)
MethodsOf(op) ==
    LET life == {M_ENTER, M_REENTER, M_EXIT} guards == {M_ENTRY_GUARD, M_EXIT_GUARD} planc == {M_PLAN_SUCCEEDED, M_PLAN_FAILED} IN
    CASE op = "update" -> {M_PRE_UPDATE, M_UPDATE, M_POST_UPDATE} \cup life \cup guards \cup planc
      [] op = "react"  -> {M_PRE_REACT, M_REACT, M_POST_REACT} \cup life \cup guards \cup planc
      [] op = "query"  -> {M_QUERY}
      [] op \in {"ito", "iwith"} -> life \cup guards
      [] op \in {"ctor", "enter"} -> {M_ENTRY_GUARD, M_ENTER}
      [] op \in {"exit", "dtor"} -> {M_EXIT}
      [] op \in {"load", "rt", "re"} -> life
      [] OTHER -> {}
\* the plan step can be interpreted from outside only if both outcome callbacks are observable (an outcome clears the plan)
PlanObs == HasHead /\ Defines(NONE, M_PLAN_SUCCEEDED) /\ Defines(NONE, M_PLAN_FAILED)
MustLog(s, m) == Verbose \/ Defines(s, m)
MayLog(s, m)  == MustLog(s, m) \/ Injections(s) >= 1 \/ m \in {M_PRE_REACT, M_REACT, M_POST_REACT, M_QUERY}
\* C15 fixes the order of the sub-deliveries (injections, the class itself) for every callback except exitGuard and query: for
\* these two only "each exactly once" is required, so any permutation is accepted
AnyOrder(m) == m \in {M_EXIT_GUARD, M_QUERY}
Members(e) == {Order(e)[q] : q \in 1 .. Len(Order(e))}
DStart(e) == Order(e) # <<>> /\ (IF AnyOrder(e.m) THEN e.j \in Members(e) ELSE e.j = Order(e)[1])
DEnd(e)   == Order(e) # <<>> /\ e.j = Last(Order(e))

HasAct(acts, kind) == \E i \in 1 .. Len(acts) : acts[i].k = kind
HasPlanAct(acts) == \E i \in 1 .. Len(acts) : acts[i].k \in {"PC", "PW", "PX", "PR"}

\* apply the plan-editing acts of a callback to a plan value (using the recorded results)
RECURSIVE PlanAfter(_, _, _)
PlanAfter(pl, acts, i) ==
    IF i > Len(acts) THEN pl
    ELSE LET a == acts[i] IN
         PlanAfter(CASE a.k = "PC" /\ a.r = 1 -> Append(pl, <<a.a, a.b, 0>>)
                     [] a.k = "PW" /\ a.r = 1 -> Append(pl, <<a.a, a.b, a.p>>)
                     [] a.k = "PX"            -> <<>>
                     [] a.k = "PR" /\ a.r = 1 /\ a.a < Len(pl) -> RemoveAt(pl, a.a + 1)
                     [] OTHER -> pl,
                   acts, i + 1)

\* do the results of the plan-editing acts agree with an exact capacity `Cap', starting from plan pl?
RECURSIVE PlanActsOK(_, _, _)
PlanActsOK(pl, acts, i) ==
    IF i > Len(acts) THEN TRUE
    ELSE LET a == acts[i] IN
         /\ a.k \in {"PC", "PW"} => a.r = (IF Len(pl) < Cap THEN 1 ELSE 0)
         /\ a.k = "PR" => a.r = (IF a.a < Len(pl) THEN 1 ELSE 0)
         /\ PlanActsOK(PlanAfter(pl, <<a>>, 1), acts, i + 1)

\* the last transition request made by the acts of a callback (or rq if none)
RECURSIVE ReqAfter(_, _, _, _)
ReqAfter(rq, sid, acts, i) ==
    IF i > Len(acts) THEN rq
    ELSE LET a == acts[i] IN
         ReqAfter(CASE a.k = "T" -> <<sid, a.a, 0>> [] a.k = "W" -> <<sid, a.a, a.p>> [] OTHER -> rq, sid, acts, i + 1)

Target(a, sid) == IF a.a = NONE THEN sid ELSE a.a

\* success / failure reports after the acts of a callback (plan.clear() wipes all of them)
RECURSIVE FlagsAfter(_, _, _, _, _)
FlagsAfter(fl, kind, sid, acts, i) ==
    IF i > Len(acts) THEN fl
    ELSE LET a == acts[i] IN
         FlagsAfter(CASE a.k = kind -> fl \cup {Target(a, sid)} [] a.k = "PX" -> {} [] OTHER -> fl, kind, sid, acts, i + 1)

\* the same, but a plan.clear() does not withdraw reports: whether a report made before a clear() is still "outstanding" is not said by
\* any property, so the monitors keep a lower bound (succ / fail: certainly outstanding) and an upper bound (msucc / mfail: possibly)
RECURSIVE FlagsAfterM(_, _, _, _, _)
FlagsAfterM(fl, kind, sid, acts, i) ==
    IF i > Len(acts) THEN fl
    ELSE LET a == acts[i] IN
         FlagsAfterM(CASE a.k = kind -> fl \cup {Target(a, sid)} [] OTHER -> fl, kind, sid, acts, i + 1)

\* the last succeed() / fail() among the acts of one callback: 0 none, 1 succeed, 2 fail
LastReport(acts) ==
    LET sf == {i \in 1 .. Len(acts) : acts[i].k \in {"S", "F"}}
    IN  IF sf = {} THEN 0 ELSE IF acts[CHOOSE i \in sf : \A k \in sf : k <= i].k = "F" THEN 2 ELSE 1

Targets(acts, kind, sid) == {Target(acts[i], sid) : i \in {q \in 1 .. Len(acts) : acts[q].k = kind}}

RECURSIVE IsSubseq(_, _, _, _)
IsSubseq(small, big, i, j) ==
    IF i > Len(small) THEN TRUE
    ELSE IF j > Len(big) THEN FALSE
    ELSE IF small[i] = big[j] THEN IsSubseq(small, big, i + 1, j + 1)
    ELSE IsSubseq(small, big, i, j + 1)

\* positions of `big' deleted to obtain `small'; among equal tasks the leftmost ones count as deleted
\* (matching runs from the right), which is the reading most favourable to every rule below
RECURSIVE Deleted(_, _, _, _, _)
Deleted(small, big, i, j, acc) ==
    IF j < 1 THEN acc
    ELSE IF i >= 1 /\ small[i] = big[j] THEN Deleted(small, big, i - 1, j - 1, acc)
    ELSE Deleted(small, big, i, j - 1, <<j>> \o acc)

FiredPos(after, before) == IF IsSubseq(after, before, 1, 1) THEN Deleted(after, before, Len(after), Len(before), <<>>) ELSE <<>>

\* ---- an independent account of the plan: what was appended and neither removed, fired nor wiped (never re-synchronised from views)
RECURSIVE RemoveFirst(_, _, _)
RemoveFirst(seq, v, i) == IF i > Len(seq) THEN seq ELSE IF seq[i] = v THEN RemoveAt(seq, i) ELSE RemoveFirst(seq, v, i + 1)
RECURSIVE RemoveEach(_, _, _)
RemoveEach(seq, vals, i) == IF i > Len(vals) THEN seq ELSE RemoveEach(RemoveFirst(seq, vals[i], 1), vals, i + 1)
HasOD(seq, v) == \E q \in 1 .. Len(seq) : seq[q][1] = v[1] /\ seq[q][2] = v[2]
HasExact(seq, v) == \E q \in 1 .. Len(seq) : seq[q] = v
RECURSIVE PlanxAfter(_, _, _, _)
PlanxAfter(px, pl, acts, i) ==
    IF i > Len(acts) THEN px
    ELSE LET a == acts[i] IN
         PlanxAfter(CASE a.k = "PC" /\ a.r = 1 -> Append(px, <<a.a, a.b, 0>>)
                      [] a.k = "PW" /\ a.r = 1 -> Append(px, <<a.a, a.b, a.p>>)
                      [] a.k = "PX"            -> <<>>
                      [] a.k = "PR" /\ a.r = 1 /\ a.a < Len(pl) -> RemoveFirst(px, pl[a.a + 1], 1)
                      [] OTHER -> px,
                    PlanAfter(pl, <<a>>, 1), acts, i + 1)

\* length of the maximal prefix of plan pl whose tasks all have origin a
RECURSIVE PrefixLen(_, _, _)
PrefixLen(pl, a, i) == IF i > Len(pl) \/ pl[i][1] # a THEN i - 1 ELSE PrefixLen(pl, a, i + 1)

\* the substitution loop drops (without guards) a request whose destination equals the accepted external, payload-free transition
IsDup(surv, rq) == rq # NoT /\ surv # NoT /\ surv = <<NONE, rq[2], 0>>

PhaseDeliveries == IF HasHead THEN 6 ELSE 3

-----------------------------------------------------------------------------
NoObs == [act |-> NONE, ia |-> <<>>, on |-> 0, prev |-> NoT, plan |-> <<>>]

TkInit == [
    alive |-> FALSE, logger |-> FALSE,
    incall |-> FALSE, op |-> "", oa |-> 0, ob |-> 0, opp |-> 0,
    act0 |-> NONE,          \* active state when the running call began (from the last observation)
    obs |-> NoObs,          \* observation at the last return
    ent |-> NONE, rootin |-> FALSE,                     \* enter/exit pairing
    stage |-> "pre",        \* within a call: pre, phase, plancb, guard, life
    dseq |-> <<>>, life |-> <<>>,                       \* deliveries / lifecycle deliveries (of states) of this call
    dm |-> 0, ds |-> NONE, dpos |-> 0, dseen |-> {},    \* current delivery, number of sub-deliveries so far and which ones
    lastacts |-> <<>>,                                  \* acts of the previous callback
    lastreq |-> NoT,                                    \* the most recent request (re-synchronised from every view)
    msucc |-> {}, mfail |-> {},                         \* upper bounds of the outstanding reports (see FlagsAfterM)
    planx |-> <<>>,                                     \* tasks appended and neither removed, fired nor wiped (from actions only)
    inround |-> FALSE, rpend |-> NoT, rcancel |-> FALSE, rfirst |-> FALSE, rentry |-> FALSE,
    surv |-> NoT, passed |-> {}, rounds |-> 0,
    planv |-> <<>>, succ |-> {}, fail |-> {}, planExists |-> FALSE,
    sawF |-> {},                                        \* failure reports made during this call (targets)
    sawS |-> {},
    stepDone |-> FALSE, planBefore |-> <<>>, fired |-> <<>>, outcome |-> 0,     \* plan step of this cycle
    phases |-> 0,
    repF |-> FALSE, dres |-> 0,     \* a phase delivery to the active state (its injections and itself) ended on a failure report in this
                            \* call / the last report of the current such delivery (0 none, 1 success, 2 failure)
    pseen |-> {},           \* <<method, class, sub-delivery>> of the phase / query callbacks delivered in this call
    desync |-> 0 ]          \* lowest structural level violated in this call (0 = none): the rest of the call is not interpreted

Cont(tk, e) == /\ tk.dpos > 0 /\ tk.dm = e.m /\ tk.ds = e.s /\ tk.dpos < Len(Order(e))
               /\ IF AnyOrder(e.m) THEN e.j \in Members(e) \ tk.dseen ELSE Order(e)[tk.dpos + 1] = e.j

\* a round of guards ends: remember whether its pending transition survived
EndRound(tk) ==
    IF ~tk.inround THEN tk
    ELSE [tk EXCEPT !.inround = FALSE,
                    \* the pending transition passed its guards: nobody cancelled it AND the destination's entry guard was consulted
                    \* (only judged when every class defines every callback - otherwise a guard may exist without being observable)
                    !.surv = IF tk.rcancel \/ (FullObs /\ ~tk.rentry) THEN @ ELSE tk.rpend,
                    !.passed = IF tk.rcancel \/ (FullObs /\ ~tk.rentry) THEN @ ELSE @ \cup {tk.rpend}]

\* does guard callback e (a delivery start) open a new round of guards?
RoundStart(tk, e) ==
    /\ IsGuard(e.m) /\ ~Cont(tk, e)
    /\ IF IsProcOp(tk.op) THEN e.m = M_EXIT_GUARD
       ELSE e.m = M_ENTRY_GUARD /\ (~HasHead \/ e.s = NONE)

\* is this event the first one after the plan step of the running update()/react()?
StepNow(tk, e) ==
    /\ tk.op \in {"update", "react"} /\ ~tk.stepDone
    /\ e.e = "ret" \/ (e.e = "cb" /\ ~IsPhase(e.m))

PlanShown(tk, e) == IF e.e = "cb" /\ CtrlKind(e.m) = 0 THEN tk.planv ELSE e.plan

TkCall(tk, e) ==
    LET base == [tk EXCEPT !.incall = TRUE, !.op = e.op, !.oa = e.a, !.ob = e.b, !.opp = e.p,
                           !.act0 = tk.obs.act, !.stage = "pre", !.dseq = <<>>, !.life = <<>>, !.dpos = 0, !.lastacts = <<>>,
                           !.inround = FALSE, !.rpend = NoT, !.rcancel = FALSE, !.rfirst = FALSE, !.rentry = FALSE,
                           !.surv = NoT, !.passed = {}, !.rounds = 0,
                           !.sawF = {}, !.sawS = {}, !.stepDone = FALSE, !.fired = <<>>, !.outcome = 0, !.phases = 0, !.pseen = {}, !.repF = FALSE, !.dres = 0,
                           !.planBefore = <<>>, !.desync = 0]
    IN  CASE e.op = "ctor"   -> [TkInit EXCEPT !.alive = TRUE, !.incall = TRUE, !.op = "ctor", !.logger = HasLog /\ e.p # 0]
          [] e.op \in {"to", "ito"}     -> [base EXCEPT !.lastreq = <<NONE, e.a, 0>>]
          [] e.op \in {"with", "iwith"} -> [base EXCEPT !.lastreq = <<NONE, e.a, e.p>>]
          [] e.op = "succeed" -> [base EXCEPT !.succ = @ \cup {e.a}, !.msucc = @ \cup {e.a}]
          [] e.op = "fail"    -> [base EXCEPT !.fail = @ \cup {e.a}, !.mfail = @ \cup {e.a}]
          [] e.op = "attach"  -> [base EXCEPT !.logger = e.a # 0]
          [] e.op = "load"    -> [base EXCEPT !.lastreq = NoT, !.planExists = FALSE, !.succ = {}, !.fail = {}, !.msucc = {}, !.mfail = {}, !.planv = <<>>, !.planx = <<>>]
          [] e.op \in {"exit", "dtor"} -> [base EXCEPT !.lastreq = NoT]
          [] OTHER -> base

TkCb(tk, e) ==
    LET cont == Cont(tk, e)
        t0   == IF IsPhase(e.m) \/ e.m = M_QUERY THEN [tk EXCEPT !.pseen = @ \cup {<<e.m, e.s, e.j>>}] ELSE tk
        t1   == IF cont THEN [t0 EXCEPT !.dpos = @ + 1, !.dseen = @ \cup {e.j}]
                ELSE [t0 EXCEPT !.dm = e.m, !.ds = e.s, !.dpos = 1, !.dseen = {e.j}, !.dseq = Append(@, <<e.m, e.s>>)]
        t2   == CASE IsPhase(e.m) /\ ~cont -> [t1 EXCEPT !.stage = "phase", !.phases = @ + 1]
                  [] IsPhase(e.m)          -> t1
                  [] IsPlanCb(e.m)         -> [t1 EXCEPT !.stage = "plancb"]
                  [] IsGuard(e.m)          -> [t1 EXCEPT !.stage = "guard"]
                  [] IsLife(e.m) /\ e.s # NONE /\ ~cont -> [EndRound(t1) EXCEPT !.stage = "life", !.life = Append(@, <<e.m, e.s>>)]
                  [] IsLife(e.m)           -> [EndRound(t1) EXCEPT !.stage = "life"]
                  [] OTHER -> t1
        planNow == PlanShown(tk, e)
        pos  == FiredPos(planNow, tk.planv)
        t3   == IF StepNow(tk, e)
                THEN [t2 EXCEPT !.stepDone = TRUE, !.planBefore = tk.planv,
                                !.fired = IF IsPlanCb(e.m) THEN <<>> ELSE [q \in 1 .. Len(pos) |-> tk.planv[pos[q]]],
                                !.outcome = IF e.m = M_PLAN_SUCCEEDED THEN 1 ELSE IF e.m = M_PLAN_FAILED THEN 2 ELSE 0,
                                !.succ = IF IsPlanCb(e.m) THEN @ ELSE @ \ {tk.planv[pos[q]][1] : q \in 1 .. Len(pos)},
                                !.msucc = IF IsPlanCb(e.m) THEN @ ELSE @ \ {tk.planv[pos[q]][1] : q \in 1 .. Len(pos)}]
                ELSE IF IsPlanCb(e.m) /\ ~cont THEN [t2 EXCEPT !.outcome = IF e.m = M_PLAN_SUCCEEDED THEN 1 ELSE 2]
                ELSE t2
        t5   == IF RoundStart(tk, e)
                THEN [EndRound(t3) EXCEPT !.inround = TRUE, !.rpend = e.pend, !.rcancel = FALSE, !.rfirst = FALSE, !.rentry = FALSE, !.rounds = @ + 1]
                ELSE t3
        t6   == IF IsGuard(e.m)
                THEN [t5 EXCEPT !.rcancel = @ \/ HasAct(e.acts, "X"), !.rfirst = TRUE, !.rentry = @ \/ (e.m = M_ENTRY_GUARD /\ e.s # NONE)]
                ELSE t5
        cleared == IsPlanCb(e.m) /\ DEnd(e)                                  \* plan().clear() follows the callback
        exitClears == IF e.m = M_EXIT /\ e.s # NONE /\ DEnd(e) THEN {e.s} ELSE {}
        pxs  == IF StepNow(tk, e) /\ ~IsPlanCb(e.m) THEN RemoveEach(tk.planx, t3.fired, 1) ELSE tk.planx
        t7   == [t6 EXCEPT !.planv = IF cleared THEN <<>> ELSE PlanAfter(planNow, e.acts, 1),
                           !.planx = IF cleared THEN <<>> ELSE PlanxAfter(pxs, planNow, e.acts, 1),
                           !.succ = IF cleared THEN {} ELSE FlagsAfter(@, "S", e.s, e.acts, 1) \ exitClears,
                           !.fail = IF cleared THEN {} ELSE FlagsAfter(@, "F", e.s, e.acts, 1) \ exitClears,
                           !.msucc = IF cleared THEN {} ELSE FlagsAfterM(@, "S", e.s, e.acts, 1) \ exitClears,       \* (the end of a plan consumes every report)
                           !.mfail = IF cleared THEN {} ELSE FlagsAfterM(@, "F", e.s, e.acts, 1) \ exitClears,
                           !.sawS = @ \cup Targets(e.acts, "S", e.s),
                           !.sawF = @ \cup Targets(e.acts, "F", e.s),
                           !.repF = @ \/ (~cont /\ tk.dres = 2),
                           !.dres = IF IsPhase(e.m) /\ e.s # NONE /\ e.s = tk.act0
                                    THEN (IF LastReport(e.acts) # 0 THEN LastReport(e.acts) ELSE IF cont THEN @ ELSE 0)
                                    ELSE 0,
                           !.planExists = @ \/ HasAct(e.acts, "PC") \/ HasAct(e.acts, "PW"),
                           !.lastreq = ReqAfter(e.req, e.s, e.acts, 1),
                           !.lastacts = e.acts]
    IN  CASE e.m = M_ENTER /\ e.s = NONE /\ ~cont  -> [t7 EXCEPT !.rootin = TRUE]
          [] e.m = M_ENTER /\ e.s # NONE /\ ~cont  -> [t7 EXCEPT !.ent = e.s]
          [] e.m = M_EXIT  /\ e.s # NONE /\ DEnd(e) -> [t7 EXCEPT !.ent = NONE]
          [] e.m = M_EXIT  /\ e.s = NONE /\ DEnd(e) -> [t7 EXCEPT !.rootin = FALSE]
          [] OTHER -> t7

TkRet(tk, e) ==
    LET t1  == EndRound(tk)
        pos == FiredPos(e.plan, tk.planv)
        t2  == IF StepNow(tk, e)
               THEN [t1 EXCEPT !.stepDone = TRUE, !.planBefore = tk.planv,
                               !.fired = [q \in 1 .. Len(pos) |-> tk.planv[pos[q]]],
                               !.succ = @ \ {tk.planv[pos[q]][1] : q \in 1 .. Len(pos)},
                               !.msucc = @ \ {tk.planv[pos[q]][1] : q \in 1 .. Len(pos)}]
               ELSE t1
        wipe == tk.op \in {"exit", "dtor"} \/ e.act = NONE
        px1  == IF StepNow(tk, e) THEN RemoveEach(tk.planx, t2.fired, 1) ELSE tk.planx
        px2  == CASE wipe \/ tk.op = "px" -> <<>>
                  [] tk.op = "pc" /\ e.r = 1 -> Append(px1, <<tk.oa, tk.ob, 0>>)
                  [] tk.op = "pw" /\ e.r = 1 -> Append(px1, <<tk.oa, tk.ob, tk.opp>>)
                  [] tk.op = "pr" /\ e.r = 1 /\ tk.oa < Len(tk.planv) -> RemoveFirst(px1, tk.planv[tk.oa + 1], 1)
                  [] OTHER -> px1
    IN  [t2 EXCEPT !.incall = FALSE, !.planx = px2, !.obs = [act |-> e.act, ia |-> e.ia, on |-> e.on, prev |-> e.prev, plan |-> e.plan],
                   !.planv = e.plan, !.dpos = 0, !.lastacts = <<>>,
                   !.alive = IF tk.op = "dtor" THEN FALSE ELSE @,
                   !.ent = IF tk.op = "dtor" THEN NONE ELSE @,
                   !.rootin = IF tk.op = "dtor" THEN FALSE ELSE @,
                   !.planExists = IF wipe THEN FALSE ELSE @ \/ (tk.op \in {"pc", "pw"}),
                   !.succ = IF wipe \/ tk.op = "px" THEN {} ELSE @,
                   !.fail = IF wipe \/ tk.op = "px" THEN {} ELSE @,
                   !.msucc = IF wipe THEN {} ELSE @,
                   !.mfail = IF wipe THEN {} ELSE @,
                   !.lastreq = IF wipe THEN NoT ELSE @]

TkStep(tk, e) ==
    CASE e.e = "cfg"  -> TkInit
      [] e.e = "call" -> TkCall(tk, e)
      [] e.e = "cb"   -> TkCb(tk, e)
      [] e.e = "ret"  -> TkRet(tk, e)
      [] OTHER -> tk

-----------------------------------------------------------------------------
(* What each property says about one event.  V(c, p, why) contributes a     *)
(* finding <<p, why>> when condition c is violated.                         *)

\* level 0: valid whatever else happened; levels 1 (sub-delivery order) and 2 (cycle order) are structural: once one is
\* violated the rest of the call cannot be interpreted, the tracker is marked out of step until the next call and findings
\* of a higher level are suppressed; level 3 relies on the call's structure
VL(ok, p, why, lvl) == IF ok THEN {} ELSE {<<p, why, lvl>>}
V(ok, p, why) == VL(ok, p, why, IF p = "C15" THEN 1 ELSE IF p = "C05" THEN 2 ELSE 3)
V0(ok, p, why) == VL(ok, p, why, 0)

\* the same tasks (origin, destination) at the same positions - whatever payloads they show
SameOD(a, b) == Len(a) = Len(b) /\ \A q \in 1 .. Len(a) : a[q][1] = b[q][1] /\ a[q][2] = b[q][2]

Unchanged(tk, e) == e.act = tk.obs.act /\ e.ia = tk.obs.ia /\ e.prev = tk.obs.prev /\ e.plan = tk.obs.plan /\ e.on = tk.obs.on

\* lifecycle deliveries needed to go from active state a to state d
LifeFor(a, d) == IF a = NONE THEN <<<<M_ENTER, d>>>>
                 ELSE IF d = NONE THEN <<<<M_EXIT, a>>>>
                 ELSE IF a = d THEN <<<<M_REENTER, a>>>> ELSE <<<<M_EXIT, a>>, <<M_ENTER, d>>>>

ExpectedPend(tk, tk2) == IF ~tk.stepDone /\ tk2.stepDone /\ tk2.fired # <<>> THEN Last(tk2.fired) ELSE tk.lastreq

CheckCb(tk, e, tk2) ==
    LET cont  == Cont(tk, e)
        start == ~cont
        proc  == IsProcOp(tk.op)
        actv  == IsActOp(tk.op)
        rstart == RoundStart(tk, e)
        survNow == IF rstart \/ IsLife(e.m) THEN EndRound(tk).surv ELSE tk.surv        \* transition accepted so far
        step  == StepNow(tk, e)
        pb    == tk.planv
        pn    == PlanShown(tk, e)
        pos   == FiredPos(pn, pb)
        a0    == tk.act0
    IN
    \* ---- C15 / C14 / C06: hold for every callback, whatever the classes define
       V(IF cont THEN TRUE ELSE (tk.dpos = 0 \/ tk.dpos = Len(DeclOrder(tk.dm, tk.ds))) /\ DStart(e),
         "C15", "injections and the state's own callback are not delivered in the declared order, exactly once each")
    \cup V(start /\ tk.incall /\ tk.dpos > 0 /\ tk.dm = e.m /\ tk.ds = e.s /\ ~IsGuard(e.m) => FALSE,
           "C15", "one event was delivered twice in a row to the same class: a callback ran more than once")
    \cup V0(e.self = 1, "C14", "the object whose callback runs is not the one access<T>() returns")
    \cup V0(e.s # NONE /\ (IsPhase(e.m) \/ e.m \in {M_ENTER, M_REENTER, M_EXIT, M_EXIT_GUARD}) => e.mact = e.s,
            "C14", "a callback ran on a state other than the one activeStateId() names: the dispatch reached the wrong state")
    \cup V0(e.m = M_ENTRY_GUARD /\ e.s # NONE => (e.pend # NoT /\ e.pend[2] = e.s) \/ (e.pend = NoT /\ e.s = 0),
            "C14", "an entry guard ran on a state other than the destination being evaluated (or, with nothing pending, the first declared state)")
    \cup V0(e.sid = e.s, "C14", "control.stateId() inside a callback is not the id of the state the callback belongs to")
    \cup V0(e.sid = e.s, "C06", "control.stateId() is not the callback's own state id")
    \cup V0(e.cact = e.mia, "C06", "control.isActive(id) disagrees with the machine's own isActive(id)")
    \cup V0(e.ctx = 1, "C06", "control.context() is not the machine's context object")
    \cup V(IsPhase(tk.dm) /\ IsPhase(e.m) /\ tk.dpos > 0 => e.req[1] = tk.lastreq[1] /\ e.req[2] = tk.lastreq[2],
           "C06", "control.request() does not show the request made in the preceding callback")
    \cup V(IsPhase(tk.dm) /\ IsPhase(e.m) /\ tk.dpos > 0 => e.req[1] = tk.lastreq[1] /\ e.req[2] = tk.lastreq[2],
           "C02", "the request made in the preceding callback is not waiting: the most recent request was lost (or never recorded)")
    \cup V(IsPhase(tk.dm) /\ IsPhase(e.m) /\ tk.dpos > 0 /\ e.req[1] = tk.lastreq[1] /\ e.req[2] = tk.lastreq[2] => e.req[3] = tk.lastreq[3],
           "C07", "the outstanding request does not carry the payload it was made with")
    \cup V(IsGuard(e.m) /\ (proc \/ actv) /\ FullObs => e.cur = survNow,
           "C06", "currentTransition() is not the transition accepted so far in this processing step")
    \cup V0(e.mact2 = e.mact, "C02", "the active state changed while a callback was making requests")
    \* a request made by the last round of guards and not taken up by a further round: still waiting because the limit is reached,
    \* or dropped by the duplicate rule - anything else means it was lost (and the transition being applied is an older one)
    \cup V(FullObs /\ (proc \/ actv) /\ start /\ IsLife(e.m) /\ IsGuard(tk.dm) /\ tk.dpos > 0 /\ tk.lastreq # NoT
             => IF e.req[1] = tk.lastreq[1] /\ e.req[2] = tk.lastreq[2] THEN tk.rounds >= (IF proc THEN L ELSE L + 1) ELSE IsDup(survNow, tk.lastreq),
           "C03", "a request made from inside a guard was neither evaluated by a fresh round of guards nor left waiting at the limit")
    \cup V(FullObs /\ (proc \/ actv) /\ start /\ IsLife(e.m) /\ IsGuard(tk.dm) /\ tk.dpos > 0 /\ tk.lastreq # NoT
             => IF e.req[1] = tk.lastreq[1] /\ e.req[2] = tk.lastreq[2] THEN tk.rounds >= (IF proc THEN L ELSE L + 1) ELSE IsDup(survNow, tk.lastreq),
           "C02", "the most recent request, which no guard cancelled, was dropped: an earlier request is being applied")
    \cup V(HasHist /\ FullObs /\ (proc \/ actv) /\ start /\ IsLife(e.m) /\ IsGuard(tk.dm) /\ tk.dpos > 0 /\ tk.lastreq # NoT
             => IF e.req[1] = tk.lastreq[1] /\ e.req[2] = tk.lastreq[2] THEN tk.rounds >= (IF proc THEN L ELSE L + 1) ELSE IsDup(survNow, tk.lastreq),
           "C11", "the transition being applied (and recorded in the history) is not the surviving request: the latest one was dropped unevaluated")
    \cup V(FullObs /\ (proc \/ actv) /\ start /\ IsLife(e.m) /\ IsGuard(tk.dm) /\ tk.dpos > 0 /\ tk.lastreq # NoT /\ ~IsDup(survNow, tk.lastreq)
             /\ ~(e.req[1] = tk.lastreq[1] /\ e.req[2] = tk.lastreq[2]) /\ e.cur[1] = tk.lastreq[1] /\ e.cur[2] = tk.lastreq[2]
             => e.cur[3] = tk.lastreq[3],
           "C07", "the transition being applied shows the payload of an earlier request to the same destination instead of the latest one's")
    \cup V(FullObs /\ tk.incall /\ tk.dseq = <<>> /\ tk.dpos = 0 /\ ~IsGuard(e.m) /\ tk.op \notin {"exit", "dtor", "load", "ito", "iwith", "ctor", "enter"}
             => e.req[1] = tk.lastreq[1] /\ e.req[2] = tk.lastreq[2],
           "C02", "a request made earlier is no longer waiting although no processing point was reached since (or a request appeared from nowhere)")
    \cup V0(IsLife(e.m) /\ ~cont => ~(IsGuard(tk.dm) /\ tk.dpos > 0 /\ tk.dpos < Len(DeclOrder(tk.dm, tk.ds))),
            "C03", "enter() / exit() / reenter() ran in the middle of a guard's evaluation")
    \cup V(e.ev # 0, "C05", "the callback did not receive the caller's own event object")
    \* (valid whatever the structure of the call: no class is asked twice for the same phase of one cycle)
    \cup V0((IsPhase(e.m) \/ e.m = M_QUERY) => <<e.m, e.s, e.j>> \notin tk.pseen,
            "C05", "the same callback of one class was invoked twice within one update() / react() / query()")
    \* ---- the request under evaluation names its requester (the class whose callback asked, NONE for the root and for outside calls)
    \cup V(rstart /\ proc /\ FullObs /\ (~step \/ pn = pb \/ (HasHead /\ tk2.fired # <<>>)) /\ ExpectedPend(tk, tk2) # NoT
             /\ e.pend[2] = ExpectedPend(tk, tk2)[2] /\ e.pend[3] = ExpectedPend(tk, tk2)[3]
             => e.pend[1] = ExpectedPend(tk, tk2)[1],
           "C06", "the pending transition shown to the guards does not name the requester of that request")
    \cup V(HasHist /\ rstart /\ proc /\ FullObs /\ (~step \/ pn = pb \/ (HasHead /\ tk2.fired # <<>>)) /\ ExpectedPend(tk, tk2) # NoT
             /\ e.pend[2] = ExpectedPend(tk, tk2)[2] /\ e.pend[3] = ExpectedPend(tk, tk2)[3]
             => e.pend[1] = ExpectedPend(tk, tk2)[1],
           "C11", "the request under evaluation - recorded in the history when it survives - does not carry the origin of the request that was made")
    \* ---- payload integrity
    \cup V0(e.req[3] # 999 /\ e.cur[3] # 999 /\ e.pend[3] # 999 /\ \A q \in 1 .. Len(e.plan) : e.plan[q][3] # 999,
           "C07", "a payload shown to a callback does not carry the bytes of any payload that was supplied")
    \cup V(rstart /\ proc /\ FullObs /\ (~step \/ (HasHead /\ tk2.fired # <<>>)) /\ e.pend[1] = ExpectedPend(tk, tk2)[1] /\ e.pend[2] = ExpectedPend(tk, tk2)[2]
             => e.pend[3] = ExpectedPend(tk, tk2)[3],
           "C07", "the pending transition shown to the guards does not carry the payload supplied with that request")
    \cup V(IsLife(e.m) /\ e.s # NONE /\ (proc \/ actv) /\ FullObs /\ survNow # NoT /\ e.cur[2] = survNow[2] => e.cur[3] = survNow[3],
           "C07", "enter/reenter/exit do not see the payload of the transition being applied")
    \cup V(rstart /\ actv /\ FullObs /\ e.pend # NoT /\ e.pend[2] = tk.lastreq[2] => e.pend[3] = tk.lastreq[3],
           "C07", "the pending transition shown to the guards during activation does not carry the payload supplied with that request")
    \* ---- C16: logging relative to the deliveries observed
    \cup V0(~tk.logger => e.pre = <<>> /\ \A q \in 1 .. Len(e.acts) : e.acts[q].lg = <<>>,
           "C16", "log records although no logger is attached")
    \cup V0(\A q \in 1 .. Len(e.pre) : e.pre[q][1] = "m" => e.pre[q][3] \in MethodsOf(tk.op),
            "C16", "a method record names a callback that the running operation never delivers")
    \cup V(tk.logger /\ cont => e.pre = <<>>, "C16", "log record between the injections and the state's own callback of one delivery")
    \cup V(tk.logger /\ start /\ MustLog(e.s, e.m) => e.pre # <<>> /\ Last(e.pre) = <<"m", e.s, e.m>>,
           "C16", "no method record immediately before the delivery")
    \cup V(tk.logger /\ start /\ ~MayLog(e.s, e.m) => (e.pre = <<>> \/ Last(e.pre) # <<"m", e.s, e.m>>),
           "C16", "method record for a class that defines no such callback without verbose logging")
    \cup V(tk.logger /\ start =>
             \A q \in 1 .. (Len(e.pre) - 1) :
                \/ e.pre[q][1] = "m" /\ DeclOrder(e.pre[q][3], e.pre[q][2]) = <<>> /\ MayLog(e.pre[q][2], e.pre[q][3])
                \/ e.pre[q][1] = "t" /\ ((step /\ \E z \in 1 .. Len(pb) : <<e.pre[q][2], e.pre[q][3]>> = <<pb[z][1], pb[z][2]>>)
                                          \/ (tk.stage = "pre" /\ tk.op \in {"ito", "iwith"} /\ e.pre[q][2] = NONE /\ e.pre[q][3] = tk.oa)),
           "C16", "a log record does not correspond to a delivery or action happening at that moment")
    \cup V0(tk.logger => \A q \in 1 .. Len(e.acts) :
             LET a == e.acts[q] IN
             a.lg = CASE a.k \in {"T", "W"} -> <<<<"t", e.s, a.a>>>>
                      [] a.k = "X" -> <<<<"c", e.s, 0>>>>
                      [] a.k = "S" -> <<<<"s", Target(a, e.s), 0>>>>
                      [] a.k = "F" -> <<<<"s", Target(a, e.s), 1>>>>
                      [] OTHER -> <<>>,
           "C16", "an action inside a callback did not produce exactly its log record")
    \* ---- tasks that fire are tasks that were appended (with the payload they were appended with)
    \cup V(step /\ PlanObs /\ ~IsPlanCb(e.m) => \A q \in 1 .. Len(tk2.fired) : HasOD(tk.planx, tk2.fired[q]),
           "C08", "a task fired that is not in the plan: never appended, already removed or already fired")
    \cup V(step /\ PlanObs /\ ~IsPlanCb(e.m) => \A q \in 1 .. Len(tk2.fired) : HasOD(tk.planx, tk2.fired[q]) => HasExact(tk.planx, tk2.fired[q]),
           "C07", "a task fired with a payload other than the one it was appended with")
    \* ---- plan bookkeeping visible in every view
    \cup V0(PlanActsOK(pn, e.acts, 1), "C10", "append / remove result disagrees with the exact task capacity")
    \cup V0(e.pfl = 1, "C10", "the plan's iterators, first(), last() and emptiness test (mutable and const forms) do not describe one sequence")
    \cup V0(e.pfl2 = 1, "C10", "a read-only view of the plan obtained before the plan was edited no longer describes the plan (iteration, first(), last(), emptiness)")
    \cup V(CtrlKind(e.m) >= 1 /\ ~step /\ tk.incall /\ tk.dpos > 0 /\ ~(IsPlanCb(tk.dm) /\ tk.dpos = Len(DeclOrder(tk.dm, tk.ds))) /\ HasPlanAct(tk.lastacts)
             => SameOD(pn, pb),
           "C10", "the plan seen after plan edits is not the sequence of tasks appended and not removed")
    \cup V(CtrlKind(e.m) >= 1 /\ ~step /\ tk.incall /\ tk.dpos > 0 /\ ~(IsPlanCb(tk.dm) /\ tk.dpos = Len(DeclOrder(tk.dm, tk.ds))) /\ HasPlanAct(tk.lastacts)
             /\ SameOD(pn, pb) => pn = pb,
           "C07", "a task in the plan shows a payload other than the one it was appended with")
    \cup V(CtrlKind(e.m) >= 1 /\ ~step /\ tk.incall /\ tk.dpos > 0 /\ ~(IsPlanCb(tk.dm) /\ tk.dpos = Len(DeclOrder(tk.dm, tk.ds))) /\ ~HasPlanAct(tk.lastacts)
             => pn = pb,
           "C08", "the plan changed outside the plan step although no callback edited it")
    \cup V(CtrlKind(e.m) >= 1 /\ tk.dpos > 0 /\ IsPlanCb(tk.dm) /\ tk.dpos = Len(DeclOrder(tk.dm, tk.ds)) => pn = <<>>,
           "C09", "the plan is not empty after planSucceeded / planFailed returned")
    \cup (IF ~FullObs THEN {} ELSE
    \* ---- C01
       V(e.m = M_ENTER /\ e.s = NONE /\ start => ~tk.rootin /\ tk.ent = NONE, "C01", "root enter() while the root or a state is still entered")
    \cup V(e.m = M_ENTER /\ e.s # NONE /\ start => tk.ent = NONE /\ (HasHead => tk.rootin), "C01", "enter() while another state has not been exited (or before the root's enter())")
    \cup V(e.m = M_ENTER /\ e.s # NONE => e.mact = e.s /\ e.mia = <<e.s>>, "C01", "activeStateId()/isActive() do not name the state being entered")
    \cup V(e.m = M_EXIT /\ e.s # NONE => tk.ent = e.s, "C01", "exit() of a state that is not the entered one")
    \cup V(e.m = M_EXIT /\ e.s = NONE => tk.rootin /\ tk.ent = NONE, "C01", "root exit() before the active state's exit()")
    \cup V(e.m = M_REENTER => tk.ent = e.s, "C01", "reenter() delivered to a state that is not active")
    \cup V((IsPhase(e.m) \/ e.m = M_QUERY) /\ e.s # NONE => tk.ent = e.s, "C01", "phase callback of a state that is not the entered one")
    \cup V((IsPhase(e.m) \/ e.m = M_QUERY \/ IsPlanCb(e.m)) /\ e.s = NONE => tk.ent # NONE, "C01", "root phase callback while no state is entered")
    \cup V(tk.ent # NONE /\ e.m # M_ENTER => e.mact = tk.ent /\ e.mia = <<tk.ent>>, "C01", "activeStateId()/isActive() do not name the state whose enter() ran last without exit()")
    \cup V(tk.ent # NONE /\ e.m # M_ENTER => e.cact = <<tk.ent>>, "C01", "through the control a callback does not see exactly one active state - the one whose enter() ran last without exit()")
    \* ---- C02 / C03 / C04: guard rounds
    \cup V(rstart /\ proc => \/ (e.pend[1] = ExpectedPend(tk, tk2)[1] /\ e.pend[2] = ExpectedPend(tk, tk2)[2])
                              \/ (step /\ \E q \in 1 .. Len(pb) : pb[q] = e.pend /\ pb[q][1] = a0)      \* issued by a task (C08 decides whether rightly)
                              \/ (~HasHead /\ step /\ ((e.pend[1] = tk.lastreq[1] /\ e.pend[2] = tk.lastreq[2])
                                                        \/ \E q \in 1 .. Len(pb) : pb[q] = e.pend /\ pb[q][1] = a0)),    \* plan outcomes are invisible without a head
           "C02", "the transition being evaluated is not the most recent request")
    \cup V(IsGuard(e.m) /\ ~rstart /\ (proc \/ actv) => tk.inround /\ e.pend = tk.rpend, "C03", "guards of one round do not see the same pending transition")
    \cup V(IsGuard(e.m) /\ proc /\ e.m = M_EXIT_GUARD => e.s = a0, "C03", "exit guard consulted on a state that is not the active one")
    \cup V(IsGuard(e.m) /\ proc /\ e.m = M_ENTRY_GUARD => e.s = tk2.rpend[2], "C03", "entry guard consulted on a state that is not the destination of the pending transition")
    \cup V(IsGuard(e.m) /\ proc /\ e.m = M_ENTRY_GUARD /\ start => tk.inround /\ tk.rfirst /\ ~tk.rcancel,
           "C03", "entry guard consulted although the exit guard was skipped or had cancelled the transition")
    \cup V(IsGuard(e.m) /\ actv /\ e.s # NONE /\ start /\ HasHead => tk.inround /\ tk.rfirst /\ ~tk.rcancel,
           "C03", "entry guard of the state consulted although the root's entry guard was skipped or had cancelled")
    \cup V(IsGuard(e.m) /\ actv /\ e.s # NONE => e.s = (IF tk2.rpend = NoT THEN 0 ELSE tk2.rpend[2]),
           "C03", "entry guard during activation consulted on a state that is not the one about to be entered")
    \cup V(IsGuard(e.m) => tk.stage # "life", "C03", "guard evaluation after enter/exit/reenter already ran in this call")
    \cup V(IsGuard(e.m) => proc \/ actv, "C03", "guards consulted by an operation that must apply transitions unguarded (replay / load / deactivation)")
    \cup V(IsGuard(e.m) => tk.op # "load", "C12", "load() consulted a guard")
    \cup V(IsGuard(e.m) => tk.op \notin {"rt", "re"}, "C11", "replay consulted a guard")
    \cup V(IsLife(e.m) /\ e.m # M_EXIT /\ e.s # NONE /\ proc /\ start => \E t \in tk2.passed : t[2] = e.s,
           "C03", "a state was entered although no request for it passed its guards")
    \cup V(IsLife(e.m) /\ e.m # M_EXIT /\ e.s # NONE /\ proc /\ start => tk2.surv # NoT /\ tk2.surv[2] = e.s,
           "C03", "after a cancelled request the machine did not fall back to the last request that survived its guards")
    \cup V(IsLife(e.m) /\ e.m = M_ENTER /\ e.s # NONE /\ actv /\ start => e.s = (IF tk2.surv = NoT THEN 0 ELSE tk2.surv[2]),
           "C03", "activation entered a state other than the initial state or the last redirect that passed its guards")
    \cup V(rstart /\ proc => tk2.rounds <= L, "C04", "more rounds of guard evaluation than the substitution limit")
    \cup V(rstart /\ actv => tk2.rounds <= L + 1, "C04", "activation evaluated more redirections than the substitution limit")
    \* ---- C05
    \cup V(IsPhase(e.m) => tk.stage \in {"pre", "phase"}, "C05", "phase callback after guards / enter / exit of the same call")
    \cup V(step => tk.phases = PhaseDeliveries, "C05", "requests were processed (or the plan stepped) before every phase callback of the call had run")
    \cup V(IsPhase(e.m) \/ e.m = M_QUERY => e.s \in {NONE, a0}, "C05", "phase callback of a state that was not active when the call began")
    \cup V(IsPhase(e.m) \/ e.m = M_QUERY => tk.op \in {"update", "react", "query"}, "C05", "phase callback outside update()/react()/query()")
    )
    \* ---- C08 / C09: the plan step (plan views, reports and plan edits are observed completely whatever the classes define)
    \cup V(step /\ PlanObs /\ ~IsPlanCb(e.m) => IsSubseq(pn, pb, 1, 1), "C08", "tasks that did not fire were reordered or replaced in the plan step")
    \cup V(step /\ PlanObs /\ ~IsPlanCb(e.m) => \A q \in 1 .. Len(pos) : pos[q] <= PrefixLen(pb, a0, 1) /\ pb[pos[q]][1] \in tk.msucc,
           "C08", "a task fired whose origin is not the active state with an outstanding success, or past a task of another origin")
    \cup V(step /\ PlanObs /\ ~IsPlanCb(e.m) => \A q \in 1 .. Len(pos) : pb[pos[q]][1] = pb[pos[q]][2] => \A z \in 1 .. Len(pos) : pos[z] <= pos[q],
           "C08", "a success report fired further tasks after a cyclic task had consumed it")
    \cup V(step /\ PlanObs /\ rstart /\ proc /\ tk2.fired # <<>> /\ e.pend[2] = Last(tk2.fired)[2] /\ e.pend[3] = Last(tk2.fired)[3]
             => e.pend[1] = Last(tk2.fired)[1],
           "C08", "the transition issued by a task does not name the task's origin as requester")
    \cup V(HasHist /\ step /\ PlanObs /\ rstart /\ proc /\ tk2.fired # <<>> /\ e.pend[2] = Last(tk2.fired)[2] /\ e.pend[3] = Last(tk2.fired)[3]
             => e.pend[1] = Last(tk2.fired)[1],
           "C11", "the request a task issued - recorded in the history when it survives - does not carry the task's origin")
    \cup V(step /\ PlanObs /\ rstart /\ proc /\ pos = <<>> /\ ~(e.pend[1] = tk.lastreq[1] /\ e.pend[2] = tk.lastreq[2])
             => ~\E q \in 1 .. Len(pb) : pb[q] = e.pend /\ pb[q][1] = a0,
           "C08", "a task issued its transition but was not removed from the plan")
    \cup V(FullObs /\ step /\ PlanObs /\ pb # <<>> /\ pb[1][1] = a0 /\ a0 \in tk.succ /\ a0 \notin tk.mfail /\ tk.sawF = {} => ~IsPlanCb(e.m) /\ pos # <<>> /\ pos[1] = 1,
           "C08", "the first task did not fire although its origin is active and reported success without failures")
    \cup V(FullObs /\ step /\ PlanObs /\ tk.lastreq # NoT /\ pb # <<>> /\ pb[1][1] = a0 /\ a0 \in tk.succ /\ a0 \notin tk.mfail /\ tk.sawF = {} => ~IsPlanCb(e.m) /\ pos # <<>> /\ pos[1] = 1,
           "C02", "the plan's request (the latest of the cycle) did not replace the earlier unprocessed request")
    \cup V(~step /\ ~IsPlanCb(e.m) /\ rstart /\ proc /\ tk.op \in {"update", "react"} /\ tk.stepDone /\ tk.rounds = 0 /\ tk.outcome = 2
             => ~(\E q \in 1 .. Len(tk.planBefore) : tk.planBefore[q] = e.pend) \/ (e.pend[1] = tk.lastreq[1] /\ e.pend[2] = tk.lastreq[2]),
           "C09", "a task fired in a cycle that delivered planFailed")
    \cup V(e.m = M_PLAN_FAILED /\ start => tk.planExists /\ (a0 \in tk.mfail \/ tk.sawF # {}), "C09", "planFailed delivered without an outstanding failure or without any task ever added")
    \cup V(e.m = M_PLAN_SUCCEEDED /\ start => tk.planExists /\ pb = <<>> /\ (a0 \in tk.msucc \/ tk.sawS # {}),
           "C09", "planSucceeded delivered while tasks remain, without an outstanding success, or without any task ever added")
    \cup V(IsPlanCb(e.m) /\ start => tk.outcome = 0 /\ step, "C09", "more than one plan outcome in one cycle, or outside the plan step")
    \cup V(FullObs /\ step /\ pb # <<>> /\ a0 \in tk.fail /\ HasHead => e.m = M_PLAN_FAILED, "C09", "planFailed not delivered although the plan is non-empty and the active state reported failure")
    \cup V(FullObs /\ step /\ pb # <<>> /\ (tk.repF \/ tk.dres = 2) /\ HasHead => e.m = M_PLAN_FAILED,
           "C09", "planFailed not delivered although the plan is non-empty and a delivery to the active state ended on a failure report in this very cycle")

CheckRet(tk, e, tk2) ==
    LET proc == IsProcOp(tk.op)
        actv == IsActOp(tk.op)
        a0   == tk.act0
        sv   == tk2.surv
        step == StepNow(tk, e)
        pb   == tk.planv
        pos  == FiredPos(e.plan, pb)
        bit  == tk.oa % 2 = 1
        tgt  == IF bit THEN (tk.oa \div 2) % Pow2(WidthBits) ELSE NONE
    IN
       V(e.op = tk.op, "C04", "a different call returned than the one that began")
    \cup V0(e.prev[3] # 999 /\ \A q \in 1 .. Len(e.plan) : e.plan[q][3] # 999, "C07", "a payload reported by the machine does not carry the bytes of any payload that was supplied")
    \* ---- C10: observers of the plan
    \cup V0(e.pne = (IF e.plan # <<>> THEN 1 ELSE 0) /\ e.pfirst = (IF e.plan # <<>> THEN e.plan[1] ELSE NoT)
            /\ e.plast = (IF e.plan # <<>> THEN Last(e.plan) ELSE NoT), "C10", "first()/last()/emptiness test disagree with iteration")
    \cup V0(Len(e.plan) <= Cap, "C10", "more tasks than the task capacity")
    \cup V0(e.pfl = 1, "C10", "a read-only view of the plan obtained before the operation no longer describes the plan afterwards")
    \cup V(tk.op = "pc" => e.r = (IF Len(pb) < Cap THEN 1 ELSE 0) /\ SameOD(e.plan, IF Len(pb) < Cap THEN Append(pb, <<tk.oa, tk.ob, 0>>) ELSE pb),
           "C10", "append succeeds exactly when fewer than capacity tasks are present, else leaves the plan untouched")
    \cup V(tk.op = "pw" => e.r = (IF Len(pb) < Cap THEN 1 ELSE 0) /\ SameOD(e.plan, IF Len(pb) < Cap THEN Append(pb, <<tk.oa, tk.ob, tk.opp>>) ELSE pb),
           "C10", "append (with payload) succeeds exactly when fewer than capacity tasks are present, else leaves the plan untouched")
    \cup V(tk.op = "pr" => e.r = (IF tk.oa < Len(pb) THEN 1 ELSE 0) /\ SameOD(e.plan, IF tk.oa < Len(pb) THEN RemoveAt(pb, tk.oa + 1) ELSE pb),
           "C10", "removing through an iterator disturbed the other tasks")
    \* (the same three, for the payloads the tasks show)
    \cup V(tk.op \in {"pc", "pw", "pr"} =>
             LET want == CASE tk.op = "pc" -> IF Len(pb) < Cap THEN Append(pb, <<tk.oa, tk.ob, 0>>) ELSE pb
                           [] tk.op = "pw" -> IF Len(pb) < Cap THEN Append(pb, <<tk.oa, tk.ob, tk.opp>>) ELSE pb
                           [] OTHER        -> IF tk.oa < Len(pb) THEN RemoveAt(pb, tk.oa + 1) ELSE pb
             IN  SameOD(e.plan, want) => e.plan = want,
           "C07", "after a plan edit a task shows a payload other than the one it was appended with")
    \cup V(tk.op = "px" => e.plan = <<>>, "C10", "clear() left tasks in the plan")
    \cup V(~step /\ tk.dpos > 0 /\ ~(IsPlanCb(tk.dm)) /\ HasPlanAct(tk.lastacts) /\ tk.op \notin {"exit", "dtor", "load"} /\ e.act # NONE => SameOD(e.plan, pb),
           "C10", "the plan seen after plan edits is not the sequence of tasks appended and not removed")
    \cup V(~step /\ tk.dpos > 0 /\ ~(IsPlanCb(tk.dm)) /\ HasPlanAct(tk.lastacts) /\ tk.op \notin {"exit", "dtor", "load"} /\ e.act # NONE /\ SameOD(e.plan, pb)
             => e.plan = pb,
           "C07", "a task in the plan shows a payload other than the one it was appended with")
    \cup V(~step /\ tk.dpos > 0 /\ ~(IsPlanCb(tk.dm)) /\ ~HasPlanAct(tk.lastacts) /\ tk.op \notin {"exit", "dtor", "load"} /\ e.act # NONE => e.plan = pb,
           "C08", "the plan changed outside the plan step although no callback edited it")
    \cup V(~step /\ tk.dpos = 0 /\ tk.op \notin {"exit", "dtor", "load", "pc", "pw", "pr", "px", "ctor", "enter", "re"} /\ e.act # NONE => e.plan = pb,
           "C08", "the plan changed in a call that delivered no callback")
    \cup V(tk.dpos > 0 /\ IsPlanCb(tk.dm) => e.plan = <<>>, "C09", "the plan is not empty after planSucceeded / planFailed returned")
    \* ---- C16
    \cup V(~tk.logger => e.pre = <<>>, "C16", "log records although no logger is attached")
    \cup V0(\A q \in 1 .. Len(e.pre) : e.pre[q][1] = "m" => e.pre[q][3] \in MethodsOf(tk.op),
            "C16", "a method record names a callback that the running operation never delivers")
    \cup V(tk.logger /\ tk.op \in {"to", "with"} => e.pre = <<<<"t", NONE, tk.oa>>>>, "C16", "changeTo/changeWith did not produce exactly one transition record")
    \cup V(tk.logger /\ tk.op = "succeed" => e.pre = <<<<"s", tk.oa, 0>>>>, "C16", "succeed() did not produce exactly one task-status record")
    \cup V(tk.logger /\ tk.op = "fail" => e.pre = <<<<"s", tk.oa, 1>>>>, "C16", "fail() did not produce exactly one task-status record")
    \cup V(tk.logger =>
             \A q \in 1 .. Len(e.pre) :
                \/ e.pre[q][1] = "m" /\ DeclOrder(e.pre[q][3], e.pre[q][2]) = <<>> /\ MayLog(e.pre[q][2], e.pre[q][3])
                \/ e.pre[q][1] = "t" /\ ((step /\ \E z \in 1 .. Len(pb) : <<e.pre[q][2], e.pre[q][3]>> = <<pb[z][1], pb[z][2]>>)
                                          \/ (tk.op \in {"to", "with", "ito", "iwith"} /\ e.pre[q][2] = NONE /\ e.pre[q][3] = tk.oa))
                \/ e.pre[q][1] = "s" /\ tk.op \in {"succeed", "fail"},
           "C16", "a log record does not correspond to a delivery or action happening at that moment")
    \* ---- C12: serialization
    \cup V(tk.op = "save" => e.r = (IF tk.obs.act = NONE THEN 0 ELSE 1 + 2 * tk.obs.act), "C12", "save() did not write the canonical encoding of the activity state (or wrote outside the buffer, or the buffer's == / != disagree with its bytes)")
    \cup V(tk.op = "save" => Unchanged(tk, e) /\ tk.dseq = <<>>, "C12", "save() modified the machine")
    \cup V(tk.op = "load" => e.act = tgt /\ e.on = (IF bit THEN 1 ELSE 0), "C12", "load() did not leave the loader with the saved activity state")
    \cup V(tk.op = "load" /\ FullObs => tk.life = (IF a0 = NONE /\ tgt = NONE THEN <<>> ELSE LifeFor(a0, tgt)), "C12", "load() did not perform exactly the exit/enter/reenter needed")
    \* ---- C11: history
    \cup V(HasHist /\ e.prev # NoT /\ e.act # NONE /\ tk.op \notin PassiveOps => e.prev[2] = e.act, "C11", "previousTransition() does not lead to the active state")
    \cup V(HasHist /\ (proc \/ actv) /\ FullObs => e.prev = sv, "C11", "previousTransition() is not the transition that survived its guards and was applied")
    \cup V(HasHist /\ (proc \/ actv) /\ FullObs /\ sv # NoT /\ e.prev[2] = sv[2] => e.prev[3] = sv[3], "C07", "previousTransition() does not carry the payload of the transition that was applied")
    \cup V(HasHist /\ tk.op \in PassiveOps => e.prev = tk.obs.prev, "C11", "previousTransition() changed without a processing step")
    \cup V(tk.op = "rt" /\ tk.oa = NONE => e.r = 0 /\ Unchanged(tk, e) /\ tk.dseq = <<>>, "C11", "replayTransition(invalid) did not return false or changed the machine")
    \cup V(tk.op = "rt" /\ tk.oa # NONE => e.r = 1 /\ e.act = tk.oa /\ e.prev = <<NONE, tk.oa, 0>>, "C11", "replayTransition(d) did not activate d or did not record it")
    \cup V(tk.op = "rt" /\ tk.oa # NONE /\ FullObs => tk.life = LifeFor(a0, tk.oa), "C11", "replayTransition(d) ran other callbacks than the needed enter/exit/reenter")
    \cup V(tk.op = "re" => e.act = tk.oa /\ (HasHist => e.prev = <<NONE, tk.oa, 0>>), "C11", "replayEnter(d) did not activate d or did not record it")
    \cup V((tk.op = "re" \/ (tk.op = "rt" /\ tk.oa # NONE)) /\ HasHist /\ e.prev # NoT => e.prev[3] = 0 /\ e.prev[1] = NONE,
           "C07", "the record of a replayed transition (made without a payload, from outside) shows a payload or an origin of another request")
    \cup V(tk.op = "re" /\ FullObs => tk.life = LifeFor(NONE, tk.oa), "C11", "replayEnter(d) ran other callbacks than the needed enter")
    \* ---- C05: query
    \cup V(tk.op = "query" => Unchanged(tk, e), "C05", "query() changed the machine")
    \cup (IF ~FullObs THEN {} ELSE
       V(tk.op = "query" => tk.dseq \in (IF HasHead THEN {<<<<M_QUERY, NONE>>, <<M_QUERY, a0>>>>, <<<<M_QUERY, a0>>, <<M_QUERY, NONE>>>>} ELSE {<<<<M_QUERY, a0>>>>}),
         "C05", "query() did not invoke query on the root and the active state exactly once (in either order)")
    \cup V(tk.op = "update" => Len(tk.dseq) >= PhaseDeliveries /\ SubSeq(tk.dseq, 1, PhaseDeliveries) =
             (IF HasHead THEN <<<<M_PRE_UPDATE, NONE>>, <<M_PRE_UPDATE, a0>>, <<M_UPDATE, NONE>>, <<M_UPDATE, a0>>, <<M_POST_UPDATE, a0>>, <<M_POST_UPDATE, NONE>>>>
              ELSE <<<<M_PRE_UPDATE, a0>>, <<M_UPDATE, a0>>, <<M_POST_UPDATE, a0>>>>),
           "C05", "update() did not invoke the phase callbacks exactly once each in the fixed order")
    \cup V(tk.op = "react" => Len(tk.dseq) >= PhaseDeliveries /\ SubSeq(tk.dseq, 1, PhaseDeliveries) =
             (IF HasHead THEN <<<<M_PRE_REACT, NONE>>, <<M_PRE_REACT, a0>>, <<M_REACT, NONE>>, <<M_REACT, a0>>, <<M_POST_REACT, a0>>, <<M_POST_REACT, NONE>>>>
              ELSE <<<<M_PRE_REACT, a0>>, <<M_REACT, a0>>, <<M_POST_REACT, a0>>>>),
           "C05", "react() did not invoke the phase callbacks exactly once each in the fixed order")
    \cup V(tk.op \in {"update", "react"} => tk.phases = PhaseDeliveries, "C05", "a phase callback was invoked more than once")
    \* ---- C01 at the return
    \cup V(tk.ent # NONE => e.act = tk.ent /\ e.ia = <<tk.ent>> /\ e.on = 1 /\ (HasHead => tk.rootin), "C01", "the machine does not report the state whose enter() ran last without exit()")
    \cup V(tk.ent = NONE /\ tk.op # "dtor" => e.act = NONE /\ e.ia = <<>> /\ ~tk.rootin /\ (Manual => e.on = 0), "C01", "an inactive machine reports an active state (or the root was left entered)")
    \cup V(tk.op \in {"exit", "dtor"} => tk.ent = NONE /\ ~tk.rootin, "C01", "deactivation left an enter() unpaired")
    \cup V(actv \/ tk.op = "re" => tk.ent # NONE, "C01", "activation did not enter a state")
    \cup V(tk.op \notin {"exit", "dtor", "enter", "ctor", "re", "load"} => (tk.ent # NONE) = (a0 # NONE), "C01", "the machine was activated or deactivated by an operation that must not do so")
    \* ---- C02: outcome of processing
    \cup V(tk.dpos = 0 \/ tk.dpos = Len(DeclOrder(tk.dm, tk.ds)), "C15", "a delivery ended before every injection and the state's own callback were invoked")
    \cup V(proc /\ sv # NoT => tk.life = LifeFor(a0, sv[2]) /\ e.act = sv[2], "C02", "the active state is not the destination of the most recent request that survived its guards (reached by exit+enter, or reenter)")
    \cup V(proc /\ sv = NoT => tk.life = <<>> /\ e.act = a0, "C02", "enter/exit/reenter ran or the active state changed although no request survived")
    \cup V(tk.op \in PassiveOps => tk.life = <<>> /\ e.act = a0, "C02", "a request changed the active state at the moment it was made")
    \* ---- C03 / C04
    \cup V(proc /\ tk2.lastreq # NoT => tk2.rounds >= L \/ IsDup(sv, tk2.lastreq), "C03", "a request made during processing was neither evaluated by a fresh round of guards nor left for the next processing point")
    \cup V(proc /\ tk2.lastreq # NoT => tk2.rounds >= L \/ IsDup(sv, tk2.lastreq), "C02", "a request that no guard cancelled was dropped instead of being processed")
    \cup V(proc \/ actv => e.act # NONE /\ e.ia = <<e.act>>, "C04", "processing did not end with exactly one active state")
    \cup V(proc => e.act = a0 \/ \E t \in tk2.passed : t[2] = e.act, "C04", "the state active after processing is not among the requests that passed their guards")
    \cup V(actv => e.act = 0 \/ \E t \in tk2.passed : t # NoT /\ t[2] = e.act, "C04", "the state active after activation is neither the initial state nor a redirect that passed its guards")
    \cup V(step /\ PlanObs => \A q \in 1 .. Len(tk2.fired) : HasOD(tk.planx, tk2.fired[q]),
           "C08", "a task fired that is not in the plan: never appended, already removed or already fired")
    \cup V(step /\ PlanObs => \A q \in 1 .. Len(tk2.fired) : HasOD(tk.planx, tk2.fired[q]) => HasExact(tk.planx, tk2.fired[q]),
           "C07", "a task fired with a payload other than the one it was appended with")
    \* ---- C08 / C09 when the plan step was the last thing visible
    \cup V(step /\ PlanObs => IsSubseq(e.plan, pb, 1, 1), "C08", "tasks that did not fire were reordered or replaced in the plan step")
    \cup V(step /\ PlanObs => \A q \in 1 .. Len(pos) : pos[q] <= PrefixLen(pb, a0, 1) /\ pb[pos[q]][1] \in tk.msucc,
           "C08", "a task fired whose origin is not the active state with an outstanding success, or past a task of another origin")
    \cup V(FullObs /\ step /\ PlanObs /\ pb # <<>> /\ pb[1][1] = a0 /\ a0 \in tk.succ /\ a0 \notin tk.mfail /\ tk.sawF = {} => pos # <<>> /\ pos[1] = 1,
           "C08", "the first task did not fire although its origin is active and reported success without failures")
    \cup V(FullObs /\ step /\ PlanObs /\ tk.lastreq # NoT /\ pb # <<>> /\ pb[1][1] = a0 /\ a0 \in tk.succ /\ a0 \notin tk.mfail /\ tk.sawF = {} => pos # <<>> /\ pos[1] = 1,
           "C02", "the plan's request (the latest of the cycle) did not replace the earlier unprocessed request")
    \cup V(step /\ pb # <<>> /\ a0 \in tk.fail /\ HasHead => FALSE, "C09", "planFailed not delivered although the plan is non-empty and the active state reported failure")
    \cup V(FullObs /\ step /\ pb # <<>> /\ (tk.repF \/ tk.dres = 2) /\ HasHead => FALSE,
           "C09", "planFailed not delivered although the plan is non-empty and a delivery to the active state ended on a failure report in this very cycle")
    )

CheckCall(tk, e, tk2) ==
       V(~tk.incall, "C04", "a call began before the previous one returned")

CheckOther(tk, e, tk2) ==
    IF e.e = "cfg"
    THEN   V0(e.ids[1] = NONE /\ \A i \in States : e.ids[i + 2] = i, "C14", "stateId<T>() is not the zero-based position of T in the declaration (or the root head has a valid id)")
      \cup V0(~HasSerial \/ (e.serbits = 1 + WidthBits /\ 2 * (N - 1) + 1 < Pow2(e.serbits)), "C12", "the serial buffer capacity does not suffice for the state count")
      \cup V(~tk.incall, "C04", "an execution ended inside a call that never returned")
      \cup V0(e.Lact = L, "C04", "the machine was instantiated with a substitution limit other than the configured one")
      \cup V0(e.capact = Cap, "C10", "the machine was instantiated with a task capacity other than the configured one")
    ELSE IF e.e \in {"crash", "truncated", "garbled"}
    THEN V0(FALSE, "C04", "the call did not return (crash, hang or runaway)")
      \cup V0(~(HasPay /\ tk.incall /\ (tk.lastreq[3] # 0 \/ tk.rpend[3] # 0 \/ tk.surv[3] # 0 \/ tk.opp # 0)), "C07", "crash while a payload-carrying transition was in flight")
      \cup V0(~(e.e = "crash" /\ HasPay /\ e.sig \in {7, 11} /\ e.pay \in {3, 4, 5}), "C07", "memory fault in a configuration whose payload type needs alignment > 1")
    ELSE {}

RawChecks(tk, e, tk2) ==
    CASE e.e = "cb"   -> CheckCb(tk, e, tk2)
      [] e.e = "ret"  -> CheckRet(tk, e, tk2)
      [] e.e = "call" -> CheckCall(tk, e, tk2)
      [] OTHER        -> CheckOther(tk, e, tk2)

\* one monitor step: new tracker and the findings <<property, why>> of this event
Judge(tk, e) ==
    LET tk2 == TkStep(tk, e)
        raw == RawChecks(tk, e, tk2)
        lv  == {f[3] : f \in {g \in raw : g[3] \in {1, 2}}} \cup (IF tk.desync # 0 THEN {tk.desync} ELSE {})
        ds  == IF e.e \in {"call", "cfg"} \/ lv = {} THEN 0 ELSE CHOOSE x \in lv : \A y \in lv : x <= y
    IN  [tk |-> [tk2 EXCEPT !.desync = ds],
         findings |-> {<<f[1], f[2]>> : f \in {g \in raw : ds = 0 \/ g[3] <= ds}}]

=============================================================================
