------------------------------ MODULE BitStream ------------------------------
(***************************************************************************)
(* BitWriteStreamT / BitReadStreamT (shared/bit_stream.inl): the per-byte  *)
(* chunk loops transcribed on bytes, with field values as bit sequences    *)
(* (least significant bit first) so that 32-bit fields need no big         *)
(* integers.  Abstractly a stream is the concatenation of its fields.      *)
(***************************************************************************)
EXTENDS Naturals, Sequences, TLC

CONSTANTS CapS,         \* stream capacity in bits
          Widths,       \* field widths offered by the environment
          MaxFields     \* maximum number of fields written

Bytes == (CapS + 7) \div 8

RECURSIVE P2(_)
P2(n) == IF n = 0 THEN 1 ELSE 2 * P2(n - 1)
BitOf(x, k) == (x \div P2(k)) % 2
Min(a, b) == IF a < b THEN a ELSE b

\* byte | (bits << start), truncated to 8 bits  (bits: sequence of 0/1, LSB first)
RECURSIVE OrInto(_, _, _, _)
OrInto(byte, start, bits, k) ==
    IF k > Len(bits) \/ start + k - 1 > 7 THEN byte
    ELSE OrInto(IF bits[k] = 1 /\ BitOf(byte, start + k - 1) = 0 THEN byte + P2(start + k - 1) ELSE byte, start, bits, k + 1)

\* BitWriteStreamT::write<W>(item): [buf, cur]
RECURSIVE WriteLoop(_, _, _)
WriteLoop(buf, cur, bits) ==
    IF bits = <<>> THEN [buf |-> buf, cur |-> cur]
    ELSE LET byteIndex  == cur \div 8
             chunkStart == cur % 8
             dataWidth  == 8 - chunkStart
             chunkWidth == Min(dataWidth, Len(bits))
         IN  WriteLoop([buf EXCEPT ![byteIndex] = OrInto(@, chunkStart, bits, 1)], cur + chunkWidth,
                       SubSeq(bits, chunkWidth + 1, Len(bits)))

\* BitReadStreamT::read<W>(): [bits, cur]
RECURSIVE ReadLoop(_, _, _, _)
ReadLoop(buf, cur, width, acc) ==
    IF width = 0 THEN [bits |-> acc, cur |-> cur]
    ELSE LET byteIndex  == cur \div 8
             chunkStart == cur % 8
             dataWidth  == 8 - chunkStart
             chunkWidth == Min(dataWidth, width)
             chunk == [k \in 1 .. chunkWidth |-> BitOf(buf[byteIndex], chunkStart + k - 1)]
         IN  ReadLoop(buf, cur + chunkWidth, width - chunkWidth, acc \o chunk)

\* all bits of the buffer, LSB of byte 0 first
BufBits(buf) == [i \in 1 .. (8 * Bytes) |-> BitOf(buf[(i - 1) \div 8], (i - 1) % 8)]
RECURSIVE Concat(_)
Concat(fs) == IF fs = <<>> THEN <<>> ELSE Head(fs) \o Concat(Tail(fs))

Patterns(w) == {[k \in 1 .. w |-> 0], [k \in 1 .. w |-> 1], [k \in 1 .. w |-> IF k = 1 THEN 1 ELSE 0],
                [k \in 1 .. w |-> IF k = w THEN 1 ELSE 0], [k \in 1 .. w |-> k % 2]}

VARIABLES buf, cur, fields, rcur, nread, lastop

BSInit == /\ buf = [i \in 0 .. (Bytes - 1) |-> 0] /\ cur = 0 /\ fields = <<>> /\ rcur = 0 /\ nread = 0
          /\ lastop = [op |-> "init", w |-> 0, bits |-> <<>>]

Write == /\ nread = 0 /\ Len(fields) < MaxFields
         /\ \E w \in Widths : cur + w <= CapS /\ \E bits \in Patterns(w) :
               LET r == WriteLoop(buf, cur, bits) IN
               buf' = r.buf /\ cur' = r.cur /\ fields' = Append(fields, bits) /\ lastop' = [op |-> "write", w |-> w, bits |-> bits]
         /\ UNCHANGED <<rcur, nread>>

Read == /\ nread < Len(fields)
        /\ LET w == Len(fields[nread + 1])
               r == ReadLoop(buf, rcur, w, <<>>)
           IN  rcur' = r.cur /\ nread' = nread + 1 /\ lastop' = [op |-> "read", w |-> w, bits |-> r.bits]
        /\ UNCHANGED <<buf, cur, fields>>

Next == Write \/ Read

\* packed back to back, LSB first, no gaps; bits past the cursor stay zero; the cursor advances by exactly the widths
InvPacked == LET all == Concat(fields) IN
             /\ cur = Len(all)
             /\ SubSeq(BufBits(buf), 1, cur) = all
             /\ \A i \in (cur + 1) .. (8 * Bytes) : BufBits(buf)[i] = 0
\* reads return exactly what was written, in order
InvRoundTrip == lastop.op = "read" => lastop.bits = fields[nread] /\ rcur = Len(Concat(SubSeq(fields, 1, nread)))

\* ffsm2::detail::bitWidth and its use for state indices
RECURSIVE BitLen(_)
BitLen(v) == IF v = 0 THEN 0 ELSE 1 + BitLen(v \div 2)
BitWidthSuffices == \A n \in 1 .. 255 : n - 1 < P2(BitLen(n)) /\ (n > 1 => P2(BitLen(n) - 1) <= n)
ASSUME BitWidthSuffices
WSmall == {1, 2, 3, 5, 7, 8}
WMixed == {1, 3, 8, 9, 16, 17, 31, 32}
=============================================================================
