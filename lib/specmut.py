"""Mutation analysis of the monitors, done on the specification.

The monitors (Monitors.tla) decide the verdict of every machine-level check, so a defect class no monitor notices is a blind
spot whatever the conformance step sees.  Here the *specification* is mutated instead of the code: each mutant of FFSM2.tla is
the model of an implementation with one plausible defect (a restore forgotten, a condition weakened, a field not cleared ...).
TLC explores the mutant in the small exhaustive configurations with the monitors folded in; `MonitorsQuiet' must be VIOLATED -
a mutant under which every monitor stays quiet in every configuration is reported as a survivor: either it is equivalent for
the properties (the change is not observable through anything a property talks about) or a monitor is missing.

  python3 lib/specmut.py [--only name,name] [--jobs N]       (not a registered check; results in spec mutants' table in DESIGN.md)
"""
import json
import os
import re
import shutil
import subprocess
import sys
import tempfile
import time
from concurrent.futures import ThreadPoolExecutor

import vlib

CFGS_ALL = ["MC_guards_q", "MC_serial", "MC_planman", "MC_planedit", "MC_serial3", "MC_plan_q", "MC_payload_q", "MC_log", "MC_inj", "MC_injplan", "MC_peer"]

# (name, file, old, new, configurations to try in order, what implementation defect it models)
M = []


def mut(name, old, new, cfgs=None, note="", file="FFSM2.tla"):
    M.append({"name": name, "file": file, "old": old, "new": new, "cfgs": cfgs or CFGS_ALL, "note": note})


# ---- activation
mut("ie_veto_no_restore", "Push([st EXCEPT !.requested = IF st.cur # NoT THEN st.cur[2] ELSE 0, !.pend = NoT, !.rounds = @ + 1], <<F0(\"ie_loop\")>>)",
    "Push([st EXCEPT !.pend = NoT, !.rounds = @ + 1], <<F0(\"ie_loop\")>>)", note="activation: a vetoed redirect stays the requested state")
mut("ie_veto_restore_origin", "!.requested = IF st.cur # NoT THEN st.cur[2] ELSE 0, !.pend = NoT", "!.requested = IF st.pend[1] # NONE THEN st.pend[1] ELSE 0, !.pend = NoT",
    note="activation: falls back to the origin of the vetoed request")
mut("ie_limit_plus_one", "IF st.rounds < L /\\ st.request # NoT\n            THEN IF st.cur # <<NONE, st.request[2], 0>>          \\* applyRequest()\n                 THEN Push([st EXCEPT !.requested = st.request[2], !.pend = st.request, !.request = NoT,\n                                      !.cancelled = FALSE, !.gres = FALSE],\n                           <<D(M_ENTRY_GUARD, NONE), F0(\"ie_g1\")>>)",
    "IF st.rounds <= L /\\ st.request # NoT\n            THEN IF st.cur # <<NONE, st.request[2], 0>>          \\* applyRequest()\n                 THEN Push([st EXCEPT !.requested = st.request[2], !.pend = st.request, !.request = NoT,\n                                      !.cancelled = FALSE, !.gres = FALSE],\n                           <<D(M_ENTRY_GUARD, NONE), F0(\"ie_g1\")>>)",
    note="activation: one redirection more than the limit")
mut("ie_head_veto_ignored", "      [] t = \"ie_g1\" ->\n            IF st.gres THEN Push(st, <<F0(\"ie_round\")>>)\n            ELSE Push(st, <<D(M_ENTRY_GUARD, st.requested), F0(\"ie_round\")>>)",
    "      [] t = \"ie_g1\" ->\n            Push([st EXCEPT !.cancelled = FALSE], <<D(M_ENTRY_GUARD, st.requested), F0(\"ie_round\")>>)", note="activation: the head's veto is dropped")
mut("ie_prev_not_set", "Push([st EXCEPT !.prev = IF HasHist THEN st.cur ELSE NoT], <<F0(\"deep_enter\"), F0(\"clrreq\")>>)", "Push(st, <<F0(\"deep_enter\"), F0(\"clrreq\")>>)",
    note="activation does not record the redirect in the history")
# ---- processing
mut("pr_veto_no_restore", "THEN Push([st EXCEPT !.requested = st.cur[2], !.pend = NoT, !.rounds = @ + 1], <<F0(\"pr_loop\")>>)",
    "THEN Push([st EXCEPT !.pend = NoT, !.rounds = @ + 1], <<F0(\"pr_loop\")>>)", note="F1: vetoed destination stays requested")
mut("pr_limit_plus_one", "      [] t = \"pr_loop\" ->\n            IF st.rounds < L /\\ st.request # NoT", "      [] t = \"pr_loop\" ->\n            IF st.rounds <= L /\\ st.request # NoT",
    note="one round more than the substitution limit")
mut("pr_dup_any_origin", "      [] t = \"pr_loop\" ->\n            IF st.rounds < L /\\ st.request # NoT\n            THEN IF st.cur # <<NONE, st.request[2], 0>>",
    "      [] t = \"pr_loop\" ->\n            IF st.rounds < L /\\ st.request # NoT\n            THEN IF st.cur = NoT \\/ st.cur[2] # st.request[2]",
    note="a request to the destination accepted so far is dropped whatever its origin / payload")
mut("pr_no_dup_rule", "      [] t = \"pr_loop\" ->\n            IF st.rounds < L /\\ st.request # NoT\n            THEN IF st.cur # <<NONE, st.request[2], 0>>",
    "      [] t = \"pr_loop\" ->\n            IF st.rounds < L /\\ st.request # NoT\n            THEN IF TRUE", note="(behaviour change outside the properties?) duplicate requests get their own round")
mut("pr_entry_after_exit_cancel", "      [] t = \"pr_g1\" ->     \\* cancelledByGuards: exit guard || entry guard (short-circuit)\n            IF st.gres THEN Push(st, <<F0(\"pr_round\")>>)\n            ELSE",
    "      [] t = \"pr_g1\" ->     \\* cancelledByGuards: exit guard || entry guard (short-circuit)\n            IF FALSE THEN Push(st, <<F0(\"pr_round\")>>)\n            ELSE", note="entry guard consulted after the exit guard cancelled")
mut("pr_exit_veto_ignored", "      [] t = \"pr_g1\" ->     \\* cancelledByGuards: exit guard || entry guard (short-circuit)\n            IF st.gres THEN Push(st, <<F0(\"pr_round\")>>)\n            ELSE Push(st,",
    "      [] t = \"pr_g1\" ->     \\* cancelledByGuards: exit guard || entry guard (short-circuit)\n            IF st.gres THEN Push([st EXCEPT !.cancelled = FALSE, !.gres = FALSE], <<D(M_ENTRY_GUARD, st.requested), F0(\"pr_round\")>>)\n            ELSE Push(st,",
    note="the exit guard's veto is forgotten")
mut("pr_prev_not_updated", "      [] t = \"pr_end\" ->\n            [Push(st, <<>>) EXCEPT !.prev = IF HasHist THEN st.cur ELSE NoT]", "      [] t = \"pr_end\" ->\n            Push(st, <<>>)", note="history not updated")
mut("pr_prev_keeps_when_none", "      [] t = \"pr_end\" ->\n            [Push(st, <<>>) EXCEPT !.prev = IF HasHist THEN st.cur ELSE NoT]",
    "      [] t = \"pr_end\" ->\n            [Push(st, <<>>) EXCEPT !.prev = IF HasHist /\\ st.cur # NoT THEN st.cur ELSE @]", note="history keeps the old transition when none was applied")
mut("pr_first_accepted_wins", "ELSE Push([st EXCEPT !.cur = st.pend, !.pend = NoT, !.rounds = @ + 1], <<F0(\"pr_loop\")>>)\n      [] t = \"pr_fin\"",
    "ELSE Push([st EXCEPT !.cur = IF @ = NoT THEN st.pend ELSE @, !.pend = NoT, !.rounds = @ + 1], <<F0(\"pr_loop\")>>)\n      [] t = \"pr_fin\"", note="first accepted request wins")
mut("pr_request_not_cleared_at_skip", "ELSE Push([st EXCEPT !.cur = NoT], <<F0(\"pr_end\")>>)", "ELSE Push(st, <<F0(\"pr_end\")>>)", note="(equivalent?) cur not reset when nothing is pending")
# ---- change
mut("chg_reenter_as_exit_enter", "      [] t = \"chg\" ->\n            IF st.requested # st.active", "      [] t = \"chg\" ->\n            IF TRUE", note="self transition runs exit+enter")
mut("chg_no_exit", "THEN Push(st, <<D(M_EXIT, st.active), F0(\"chg_swap\")>>)", "THEN Push(st, <<F0(\"chg_swap\")>>)", note="exit() skipped")
mut("chg_active_early", "THEN Push(st, <<D(M_EXIT, st.active), F0(\"chg_swap\")>>)", "THEN Push([st EXCEPT !.active = st.requested], <<D(M_EXIT, st.active), F0(\"chg_swap\")>>)",
    note="registry.active switched before exit() runs")
# ---- plans
mut("plan_no_planexists_gate", "IF ~HasPlans \\/ s = 0 \\/ ~st.planExists THEN Push(st, <<>>)", "IF ~HasPlans \\/ s = 0 THEN Push(st, <<>>)", note="F6-like: outcomes without any task ever added")
mut("plan_scan_past_other_origin", "    IF i > Len(tasks) \\/ tasks[i][1] # act\n    THEN [plan |-> keep", "    IF i > Len(tasks)\n    THEN [plan |-> keep", note="tasks behind a task of another origin fire")
mut("plan_fire_without_success", "         IF t[1] \\in succ\n         THEN Scan(", "         IF TRUE\n         THEN Scan(", note="tasks of the active state fire without a success report")
mut("plan_success_not_consumed", "[plan |-> keep \\o SubSeq(tasks, i, Len(tasks)), req |-> req, succ |-> succ \\ acc[2], logs |-> acc[1]]",
    "[plan |-> keep \\o SubSeq(tasks, i, Len(tasks)), req |-> req, succ |-> succ, logs |-> acc[1]]", note="success report survives firing")
mut("plan_fired_not_removed", "                   keep, <<t[1], t[2], t[3]>>,", "                   Append(keep, t), <<t[1], t[2], t[3]>>,", note="a fired task stays in the plan")
mut("plan_task_payload_dropped", "                   keep, <<t[1], t[2], t[3]>>,", "                   keep, <<t[1], t[2], 0>>,", note="task payload not forwarded")
mut("plan_task_origin_root", "                   keep, <<t[1], t[2], t[3]>>,", "                   keep, <<NONE, t[2], t[3]>>,", note="task's request names the root as requester")
mut("plan_failed_keeps_plan", "      [] t = \"plan_clear\" ->\n            PlanCleared(Push(st, <<>>))", "      [] t = \"plan_clear\" ->\n            Push(st, <<>>)", note="plan not cleared after outcome")
mut("plan_clear_keeps_status", "PlanCleared(st) == [st EXCEPT !.plan = <<>>, !.succ = {}, !.fail = {}]", "PlanCleared(st) == [st EXCEPT !.plan = <<>>]", note="plan.clear() keeps status bits")
mut("plan_success_priority", "            ELSE IF s = 2 THEN Push([st EXCEPT !.ts = 2], <<D(M_PLAN_FAILED, NONE), F0(\"plan_clear\")>>)\n            ELSE IF st.plan # <<>>",
    "            ELSE IF s = 2 /\\ st.active \\notin st.succ THEN Push([st EXCEPT !.ts = 2], <<D(M_PLAN_FAILED, NONE), F0(\"plan_clear\")>>)\n            ELSE IF st.plan # <<>>",
    note="success wins over failure")
mut("exit_keeps_status", "IF f.s = NONE THEN s1 ELSE [s1 EXCEPT !.succ = @ \\ {f.s}, !.fail = @ \\ {f.s}]", "s1", note="exit() does not drop the state's report")
mut("cycle_keeps_substatus", "      [] t = \"cycle_end\" ->     \\* clearRegionStatuses()\n            [Push(st, <<>>) EXCEPT !.sub = 0, !.ts = 0]", "      [] t = \"cycle_end\" ->     \\* clearRegionStatuses()\n            [Push(st, <<>>) EXCEPT !.ts = 0]",
    note="region status survives the cycle")
mut("fx_keeps_planexists", "PlanDataCleared(st) == [st EXCEPT !.plan = <<>>, !.succ = {}, !.fail = {}, !.planExists = FALSE, !.sub = 0]",
    "PlanDataCleared(st) == [st EXCEPT !.plan = <<>>, !.succ = {}, !.fail = {}, !.sub = 0]", note="planExists survives deactivation / load")
# ---- deactivation / load / replay
mut("fx_keeps_request", "PlanDataCleared([Push(st, <<>>) EXCEPT !.active = NONE, !.requested = NONE, !.request = NoT, !.prev = NoT])",
    "PlanDataCleared([Push(st, <<>>) EXCEPT !.active = NONE, !.requested = NONE, !.prev = NoT])", note="(in contract?) a request survives deactivation")
mut("fx_keeps_prev", "PlanDataCleared([Push(st, <<>>) EXCEPT !.active = NONE, !.requested = NONE, !.request = NoT, !.prev = NoT])",
    "PlanDataCleared([Push(st, <<>>) EXCEPT !.active = NONE, !.requested = NONE, !.request = NoT])", note="history survives deactivation")
mut("fx_root_exit_skipped", "Push(st, <<D(M_EXIT, st.active), D(M_EXIT, NONE), F0(\"fx_end\")>>)", "Push(st, <<D(M_EXIT, st.active), F0(\"fx_end\")>>)", note="root exit() skipped")
mut("load_keeps_request", "PlanDataCleared(Push([st EXCEPT !.requested = f.x, !.request = NoT, !.prev = NoT], <<F0(\"chg\")>>))",
    "PlanDataCleared(Push([st EXCEPT !.requested = f.x, !.prev = NoT], <<F0(\"chg\")>>))", note="a request survives load()")
mut("load_keeps_prev", "PlanDataCleared(Push([st EXCEPT !.requested = f.x, !.request = NoT, !.prev = NoT], <<F0(\"chg\")>>))",
    "PlanDataCleared(Push([st EXCEPT !.requested = f.x, !.request = NoT], <<F0(\"chg\")>>))", note="(unspecified?) history survives load()")
mut("load_keeps_plan", "PlanDataCleared(Push([st EXCEPT !.requested = f.x, !.request = NoT, !.prev = NoT], <<F0(\"chg\")>>))",
    "Push([st EXCEPT !.requested = f.x, !.request = NoT, !.prev = NoT], <<F0(\"chg\")>>)", note="(unspecified?) plan survives load()")
mut("rt_clears_request", "THEN [s0 EXCEPT !.requested = o.a, !.prev = <<NONE, o.a, 0>>, !.r = 1, !.k = <<F0(\"chg\"), F0(\"clrreq\")>>]",
    "THEN [s0 EXCEPT !.requested = o.a, !.prev = <<NONE, o.a, 0>>, !.r = 1, !.request = NoT, !.k = <<F0(\"chg\"), F0(\"clrreq\")>>]", note="replayTransition drops a waiting request")
mut("rt_prev_not_set", "THEN [s0 EXCEPT !.requested = o.a, !.prev = <<NONE, o.a, 0>>, !.r = 1, !.k = <<F0(\"chg\"), F0(\"clrreq\")>>]",
    "THEN [s0 EXCEPT !.requested = o.a, !.r = 1, !.k = <<F0(\"chg\"), F0(\"clrreq\")>>]", note="replayTransition does not record the transition")
mut("rt_invalid_clears_prev", "                ELSE s0\n          [] op = \"re\"", "                ELSE [s0 EXCEPT !.prev = NoT]\n          [] op = \"re\"", note="F9")
mut("rt_consults_guards", "THEN [s0 EXCEPT !.requested = o.a, !.prev = <<NONE, o.a, 0>>, !.r = 1, !.k = <<F0(\"chg\"), F0(\"clrreq\")>>]",
    "THEN [s0 EXCEPT !.requested = o.a, !.prev = <<NONE, o.a, 0>>, !.r = 1, !.k = <<D(M_ENTRY_GUARD, o.a), F0(\"chg\"), F0(\"clrreq\")>>]", note="replay consults the entry guard")
mut("save_not_injective", "Encode(st) == IF IsActive(st) THEN 1 + 2 * st.active ELSE 0", "Encode(st) == IF IsActive(st) THEN 1 + 2 * (st.active % 2) ELSE 0", note="save loses bits of the state index")
# ---- cycle
mut("cycle_post_root_first", "       D(post, act),  D(post, NONE), F0(\"region_end\"),", "       D(post, NONE), D(post, act),  F0(\"region_end\"),", note="post phase delivered root first")
mut("cycle_requests_before_post", "       D(post, act),  D(post, NONE), F0(\"region_end\"),\n       F0(\"planstep\"), F0(\"cycle_end\"), F0(\"pr\") >>",
    "       F0(\"planstep\"), F0(\"cycle_end\"), F0(\"pr\"), D(post, act),  D(post, NONE), F0(\"region_end\") >>", note="requests processed before the post phase")
mut("cycle_no_planstep", "       F0(\"planstep\"), F0(\"cycle_end\"), F0(\"pr\") >>", "       F0(\"cycle_end\"), F0(\"pr\") >>", note="plan step skipped")
mut("query_active_only", "[s0 EXCEPT !.k = <<D(M_QUERY, NONE), D(M_QUERY, st.active)>>, !.r = o.a]", "[s0 EXCEPT !.k = <<D(M_QUERY, st.active)>>, !.r = o.a]", note="query not delivered to the root")
# ---- control operations
mut("act_changeto_origin_root", "CASE a.k = \"T\"  -> [st |-> [st EXCEPT !.request = <<sid, a.a, 0>>]", "CASE a.k = \"T\"  -> [st |-> [st EXCEPT !.request = <<NONE, a.a, 0>>]", note="changeTo from a state records the root as origin")
mut("act_changeto_keeps_payload", "CASE a.k = \"T\"  -> [st |-> [st EXCEPT !.request = <<sid, a.a, 0>>]", "CASE a.k = \"T\"  -> [st |-> [st EXCEPT !.request = <<sid, a.a, @[3]>>]", note="changeTo keeps the payload of the replaced request")
mut("act_changewith_drops_payload", "[] a.k = \"W\"  -> [st |-> [st EXCEPT !.request = <<sid, a.a, a.p>>]", "[] a.k = \"W\"  -> [st |-> [st EXCEPT !.request = <<sid, a.a, 0>>]", note="changeWith drops the payload")
mut("act_first_request_wins", "CASE a.k = \"T\"  -> [st |-> [st EXCEPT !.request = <<sid, a.a, 0>>]", "CASE a.k = \"T\"  -> [st |-> [st EXCEPT !.request = IF @ = NoT THEN <<sid, a.a, 0>> ELSE @]", note="an earlier unprocessed request is kept")
mut("act_cancel_clears_request", "[] a.k = \"X\"  -> [st |-> [st EXCEPT !.cancelled = TRUE]", "[] a.k = \"X\"  -> [st |-> [st EXCEPT !.cancelled = TRUE, !.request = NoT]", note="cancelPendingTransition drops a request made earlier in the guard")
mut("act_succeed_sets_fail", "[st |-> [st EXCEPT !.ts = 1, !.succ = @ \\cup {tg}]", "[st |-> [st EXCEPT !.ts = 1, !.fail = @ \\cup {tg}]", note="succeed recorded as failure")
mut("act_capacity_plus_one", "[] a.k = \"PC\" -> IF Len(st.plan) < Cap", "[] a.k = \"PC\" -> IF Len(st.plan) <= Cap", note="one task more than the capacity")
mut("act_px_keeps_status", "[] a.k = \"PX\" -> [st |-> [st EXCEPT !.plan = <<>>, !.succ = {}, !.fail = {}]", "[] a.k = \"PX\" -> [st |-> [st EXCEPT !.plan = <<>>]", note="(unspecified?) plan.clear() from user code keeps the status bits")
mut("call_to_processes", "[] op = \"to\"     -> [s0 EXCEPT !.request = <<NONE, o.a, 0>>, !.pendlog = @ \\o lg(<<\"t\", NONE, o.a>>)]",
    "[] op = \"to\"     -> [s0 EXCEPT !.request = <<NONE, o.a, 0>>, !.pendlog = @ \\o lg(<<\"t\", NONE, o.a>>), !.k = <<F0(\"pr\")>>]", note="changeTo acts at once")
# ---- views
mut("view_cur_is_pending", "      cur  |-> IF kind = 0 THEN NoT ELSE st.cur,", "      cur  |-> IF kind = 0 THEN NoT ELSE IF kind = 3 THEN st.pend ELSE st.cur,", note="guards see the pending transition as current")
mut("view_isactive_zero", "      cact |-> ActiveSet(st), mact", "      cact |-> IF st.active # NONE /\\ st.active # 0 THEN <<0, st.active>> ELSE ActiveSet(st), mact", note="F2")
# ---- delivery
mut("deliver_exit_forward", "[] m \\in {M_POST_UPDATE, M_POST_REACT, M_EXIT}       -> own \\o Rev(UpTo(k))", "[] m \\in {M_POST_UPDATE, M_POST_REACT}       -> own \\o Rev(UpTo(k))\n          [] m = M_EXIT -> UpTo(k) \\o own",
    cfgs=["MC_inj"], note="exit delivered injections first")
mut("deliver_skip_last_injection", "                cbs  == [i \\in 1 .. Len(ord) |-> Fr(\"cb\", f.m, f.s, ord[i], f.s)]", "                cbs  == [i \\in 1 .. (IF f.m = M_EXIT_GUARD /\\ Len(ord) > 1 THEN Len(ord) - 1 ELSE Len(ord)) |-> Fr(\"cb\", f.m, f.s, ord[i], f.s)]",
    cfgs=["MC_inj"], note="exitGuard skips one sub-delivery")
mut("log_after_user_code", "[Push(st, cbs \\o <<Fr(\"post\", f.m, f.s, 0, IF st.cancelled THEN 1 ELSE 0)>>) EXCEPT !.pendlog = @ \\o logs]", "[Push(st, cbs \\o <<Fr(\"post\", f.m, f.s, 0, IF st.cancelled THEN 1 ELSE 0)>>) EXCEPT !.pendlog = logs \\o @]",
    cfgs=["MC_log", "MC_logv"], note="(order of records)")
mut("log_changeto_silent", "CASE a.k = \"T\"  -> [st |-> [st EXCEPT !.request = <<sid, a.a, 0>>], r |-> 0, lg |-> lg(<<\"t\", sid, a.a>>)]", "CASE a.k = \"T\"  -> [st |-> [st EXCEPT !.request = <<sid, a.a, 0>>], r |-> 0, lg |-> <<>>]",
    cfgs=["MC_log", "MC_logv"], note="changeTo not logged")

# ---- second batch
mut("load_same_state_no_reenter", "PlanDataCleared(Push([st EXCEPT !.requested = f.x, !.request = NoT, !.prev = NoT], <<F0(\"chg\")>>))",
    "PlanDataCleared(Push([st EXCEPT !.requested = f.x, !.request = NoT, !.prev = NoT], IF f.x = st.active THEN <<F0(\"clrreq\")>> ELSE <<F0(\"chg\")>>))", note="load of the active state skips reenter")
mut("load_enter_runs_guards", "Push([st EXCEPT !.requested = f.x], <<F0(\"deep_enter\")>>)", "Push([st EXCEPT !.requested = f.x], <<D(M_ENTRY_GUARD, f.x), F0(\"deep_enter\")>>)", note="load into an inactive machine consults the entry guard")
mut("load_inactive_ignored", "ELSE IF IsActive(st) THEN [s0 EXCEPT !.k = <<F0(\"fx\")>>] ELSE s0", "ELSE s0", note="loading an inactive snapshot does not deactivate")
mut("re_runs_activation", "[] op = \"re\"     -> [s0 EXCEPT !.requested = o.a, !.prev = <<NONE, o.a, 0>>, !.k = <<F0(\"deep_enter\"), F0(\"clrreq\")>>]",
    "[] op = \"re\"     -> IF o.a = 0 THEN [s0 EXCEPT !.k = <<F0(\"ie\")>>] ELSE [s0 EXCEPT !.requested = o.a, !.prev = <<NONE, o.a, 0>>, !.k = <<F0(\"deep_enter\"), F0(\"clrreq\")>>]", note="replayEnter(0) runs the guarded activation")
mut("re_prev_not_set", "[] op = \"re\"     -> [s0 EXCEPT !.requested = o.a, !.prev = <<NONE, o.a, 0>>, !.k", "[] op = \"re\"     -> [s0 EXCEPT !.requested = o.a, !.k", note="replayEnter does not record the transition")
mut("enter_root_skipped", "                 <<D(M_ENTER, NONE), D(M_ENTER, st.requested)>>)", "                 <<D(M_ENTER, st.requested)>>)", note="root enter() skipped")
mut("dtor_no_exit", "ELSE [s0 EXCEPT !.k = <<F0(\"fx\"), F0(\"dead\")>>]", "ELSE [s0 EXCEPT !.k = <<F0(\"dead\")>>]", note="destructor of an automatic machine skips finalExit")
mut("succeed_external_ignored", "[] op = \"succeed\" -> [s0 EXCEPT !.succ = @ \\cup {o.a}, !.pendlog", "[] op = \"succeed\" -> [s0 EXCEPT !.pendlog", note="machine.succeed() has no effect")
mut("ito_not_immediate", "!.pendlog = @ \\o lg(<<\"t\", NONE, o.a>>), !.k = <<F0(\"pr\")>>]\n          [] op = \"iwith\"", "!.pendlog = @ \\o lg(<<\"t\", NONE, o.a>>)]\n          [] op = \"iwith\"", note="immediateChangeTo only queues")
mut("enter_sees_no_payload", "Push([st EXCEPT !.active = st.requested, !.requested = NONE], <<D(M_ENTER, st.requested)>>)", "Push([st EXCEPT !.active = st.requested, !.requested = NONE, !.cur = <<@[1], @[2], 0>>], <<D(M_ENTER, st.requested)>>)",
    note="enter() does not see the payload")
mut("prev_payload_dropped", "      [] t = \"pr_end\" ->\n            [Push(st, <<>>) EXCEPT !.prev = IF HasHist THEN st.cur ELSE NoT]", "      [] t = \"pr_end\" ->\n            [Push(st, <<>>) EXCEPT !.prev = IF HasHist THEN <<st.cur[1], st.cur[2], 0>> ELSE NoT]", note="history drops the payload")
mut("pend_payload_dropped", "                 THEN Push([st EXCEPT !.requested = st.request[2], !.pend = st.request, !.request = NoT,\n                                      !.cancelled = FALSE, !.gres = FALSE],\n                           <<D(M_EXIT_GUARD, st.active), F0(\"pr_g1\")>>)",
    "                 THEN Push([st EXCEPT !.requested = st.request[2], !.pend = <<st.request[1], st.request[2], 0>>, !.request = NoT,\n                                      !.cancelled = FALSE, !.gres = FALSE],\n                           <<D(M_EXIT_GUARD, st.active), F0(\"pr_g1\")>>)", note="guards do not see the payload")
mut("react_main_before_pre", "[] op = \"react\"  -> [s0 EXCEPT !.k = Cycle(M_PRE_REACT, M_REACT, M_POST_REACT, st.active)]", "[] op = \"react\"  -> [s0 EXCEPT !.k = Cycle(M_REACT, M_PRE_REACT, M_POST_REACT, st.active)]", cfgs=["MC_guards_q", "MC_log"], note="react before preReact")
mut("log_everything_nonverbose", "                    ELSE Defines(s, m) \\/ Injections(s) >= 1 \\/ m \\in {M_PRE_REACT, M_REACT, M_POST_REACT, M_QUERY}", "                    ELSE TRUE", cfgs=["MC_log"], note="non-verbose logging records classes that define nothing")
mut("log_cancel_silent", "r |-> 0, lg |-> lg(<<\"c\", sid, 0>>)]", "r |-> 0, lg |-> <<>>]", cfgs=["MC_log", "MC_logv"], note="cancellation not logged")
mut("log_status_names_caller", "r |-> 0, lg |-> lg(<<\"s\", tg, 1>>)]", "r |-> 0, lg |-> lg(<<\"s\", sid, 1>>)]", cfgs=["MC_log", "MC_logv", "MC_plan_q"], note="fail(id) logged with the caller instead of the target")
mut("log_task_transition_silent", "!.pendlog = @ \\o (IF st.logger THEN sc.logs ELSE <<>>)]", "!.pendlog = @]", cfgs=["MC_log", "MC_logv"], note="a task's transition is not logged")
mut("log_detach_ignored", "[] op = \"attach\" -> [s0 EXCEPT !.logger = o.a # 0]", "[] op = \"attach\" -> [s0 EXCEPT !.logger = TRUE]", cfgs=["MC_log", "MC_logv"], note="detached logger keeps receiving records")
mut("status_leaks_across_phases", "      [] t = \"region_end\" ->       \\* ~ScopedRegion: the control's task status is reset\n            [Push(st, <<>>) EXCEPT !.ts = 0]", "      [] t = \"region_end\" ->       \\* ~ScopedRegion: the control's task status is reset\n            Push(st, <<>>)",
    note="(internal) control task status not reset between phases")
mut("root_status_counts", "IF f.s = NONE THEN s1 ELSE [s1 EXCEPT !.sub = Max(@, st.ts)]", "[s1 EXCEPT !.sub = Max(@, st.ts)]", note="(internal) the root's own reports count as sub-status")
mut("inj_enter_reversed", "          [] OTHER                                              -> UpTo(k) \\o own", "          [] OTHER                                              -> IF m = M_ENTER THEN Rev(UpTo(k)) \\o own ELSE UpTo(k) \\o own", cfgs=["MC_inj"], note="enter delivered Ik..I1")
mut("inj_own_reenter_skipped", "          [] OTHER                                              -> UpTo(k) \\o own", "          [] OTHER                                              -> IF m = M_REENTER /\\ k > 0 THEN UpTo(k) ELSE UpTo(k) \\o own", cfgs=["MC_inj"], note="own reenter skipped when injections exist")
mut("inj_postupdate_forward", "[] m \\in {M_POST_UPDATE, M_POST_REACT, M_EXIT}       -> own \\o Rev(UpTo(k))", "[] m \\in {M_POST_REACT, M_EXIT}       -> own \\o Rev(UpTo(k))\n          [] m = M_POST_UPDATE -> own \\o UpTo(k)", cfgs=["MC_inj"], note="postUpdate injections forward")

# ---- third batch
mut("reenter_wrong_state", "ELSE Push([st EXCEPT !.requested = NONE], <<D(M_REENTER, st.active)>>)", "ELSE Push([st EXCEPT !.requested = NONE], <<D(M_REENTER, (st.active + 1) % N)>>)", note="reenter delivered to another state")
mut("enter_old_state", "Push([st EXCEPT !.active = st.requested, !.requested = NONE], <<D(M_ENTER, st.requested)>>)", "Push([st EXCEPT !.active = st.requested, !.requested = NONE], <<D(M_ENTER, st.active)>>)", note="enter delivered to the state just left")
mut("guard_sees_stale_request", "      req  |-> st.request,", "      req  |-> IF kind = 3 THEN st.pend ELSE st.request,", note="request() in guards still shows the request being evaluated")
mut("plan_append_front", "THEN [st |-> [st EXCEPT !.plan = Append(@, <<a.a, a.b, 0>>), !.planExists = TRUE], r |-> 1, lg |-> <<>>]", "THEN [st |-> [st EXCEPT !.plan = <<<<a.a, a.b, 0>>>> \\o @, !.planExists = TRUE], r |-> 1, lg |-> <<>>]", note="tasks are prepended")
mut("plan_remove_next", "THEN [st |-> [st EXCEPT !.plan = RemoveAt(@, a.a + 1)], r |-> 1, lg |-> <<>>]", "THEN [st |-> [st EXCEPT !.plan = RemoveAt(@, IF a.a + 2 <= Len(@) THEN a.a + 2 ELSE a.a + 1)], r |-> 1, lg |-> <<>>]", note="iterator remove takes the following task")
mut("plan_cyclic_not_cleared_at_once", "                   IF t[1] = t[2] THEN succ \\ {t[1]} ELSE succ,", "                   succ,", note="two cyclic tasks of one origin both fire on one report")
mut("plan_succeeded_needs_active_success", "                 ELSE Push([st EXCEPT !.ts = 1], <<D(M_PLAN_SUCCEEDED, NONE), F0(\"plan_clear\")>>)", "                 ELSE IF st.active \\in st.succ THEN Push([st EXCEPT !.ts = 1], <<D(M_PLAN_SUCCEEDED, NONE), F0(\"plan_clear\")>>) ELSE Push(st, <<>>)",
    note="(unspecified?) planSucceeded only for the active state's own report")
mut("plan_status_sub_only", "            LET s == Max(st.sub, StatusBits(st)) IN", "            LET s == st.sub IN", note="reports made outside the cycle (machine.succeed) are ignored by the plan step")
mut("plan_status_bits_only", "            LET s == Max(st.sub, StatusBits(st)) IN", "            LET s == StatusBits(st) IN", note="(internal) region status ignored")
mut("status_success_over_failure", "StatusBits(st) == IF st.active \\in st.fail THEN 2 ELSE IF st.active \\in st.succ THEN 1 ELSE 0", "StatusBits(st) == IF st.active \\in st.succ THEN 1 ELSE IF st.active \\in st.fail THEN 2 ELSE 0", note="success bit wins over failure bit")
mut("pw_full_no_planexists", "ELSE [st |-> [st EXCEPT !.planExists = TRUE], r |-> 0, lg |-> <<>>]", "ELSE [st |-> st, r |-> 0, lg |-> <<>>]", note="(internal) failed payload append")
mut("gres_sticky", "                    [s1 EXCEPT !.gres = (f.x = 0) /\\ st.cancelled]", "                    [s1 EXCEPT !.gres = st.cancelled]", note="(internal) cancelledBefore")
mut("succeed_self_targets_root", "[] a.k = \"S\"  -> LET tg == IF a.a = NONE THEN sid ELSE a.a IN", "[] a.k = \"S\"  -> LET tg == IF a.a = NONE THEN 0 ELSE a.a IN", note="succeed() without argument reports state 0")
mut("dtor_manual_runs_exit", "[] op = \"dtor\"   -> IF Manual THEN [s0 EXCEPT !.alive = FALSE]", "[] op = \"dtor\"   -> IF Manual /\\ ~IsActive(st) THEN [s0 EXCEPT !.alive = FALSE]", note="(equivalent: contract)")
mut("exit_keeps_active", "PlanDataCleared([Push(st, <<>>) EXCEPT !.active = NONE, !.requested = NONE, !.request = NoT, !.prev = NoT])", "PlanDataCleared([Push(st, <<>>) EXCEPT !.requested = NONE, !.request = NoT, !.prev = NoT])", note="an exited machine still reports an active state")
mut("iwith_payload_dropped", "[] op = \"iwith\"  -> [s0 EXCEPT !.request = <<NONE, o.a, o.p>>", "[] op = \"iwith\"  -> [s0 EXCEPT !.request = <<NONE, o.a, 0>>", note="immediateChangeWith drops the payload")


def run_one(m, spec_src):
    d = tempfile.mkdtemp(prefix="specmut_", dir=os.environ.get("VERIF_SCRATCH", "/tmp"))
    try:
        for f in os.listdir(spec_src):
            if f.endswith((".tla", ".cfg")):
                shutil.copy(os.path.join(spec_src, f), d)
        p = os.path.join(d, m["file"])
        s = open(p).read()
        if s.count(m["old"]) != 1:
            return m["name"], "PATTERN", "pattern occurs %d times" % s.count(m["old"]), 0
        open(p, "w").write(s.replace(m["old"], m["new"]))
        t0 = time.time()
        for cfg in m["cfgs"]:
            cmd = ["java", "-XX:+UseParallelGC", "-Xmx8g", "-Xss64m", "-cp", vlib.TLA_CP, "tlc2.TLC", "-workers", "4", "-noGenerateSpecTE",
                   "-metadir", os.path.join(d, "meta_" + cfg), "-config", cfg + ".cfg", "FFSM2MC.tla"]
            try:
                r = subprocess.run(cmd, cwd=d, stdout=subprocess.PIPE, stderr=subprocess.STDOUT, universal_newlines=True, timeout=1500)
                out = r.stdout
            except subprocess.TimeoutExpired as e:
                out = (e.stdout or "") + "TIMEOUT"
            shutil.rmtree(os.path.join(d, "meta_" + cfg), ignore_errors=True)
            if "Invariant MonitorsQuiet is violated" in out:
                mm = re.search(r'bad = \{ << "(C\d+)", "([^"]*)"', out.replace("\n", " "))
                return m["name"], "KILLED", "%s: %s%s" % (cfg, (mm.group(1) + " " + mm.group(2)[:90]) if mm else "", ""), time.time() - t0
            vio = re.search(r"Invariant (\w+) is violated", out)
            if vio:
                return m["name"], "KILLED-BY-INVARIANT", "%s: %s" % (cfg, vio.group(1)), time.time() - t0
            if "No error has been found" not in out:
                return m["name"], "ERROR", "%s: %s" % (cfg, out[-400:].replace("\n", " ")), time.time() - t0
        return m["name"], "SURVIVED", ",".join(m["cfgs"]), time.time() - t0
    finally:
        shutil.rmtree(d, ignore_errors=True)


# ---- defect classes of the eighth round of seeded changes (modelled on the specification)
mut("postreact_status_lost", "[] f.m \\in {M_PRE_UPDATE, M_UPDATE, M_POST_UPDATE, M_PRE_REACT, M_REACT, M_POST_REACT} ->\n                    IF f.s = NONE THEN s1 ELSE [s1 EXCEPT !.sub = Max(@, st.ts)]",
    "[] f.m \\in {M_PRE_UPDATE, M_UPDATE, M_POST_UPDATE, M_PRE_REACT, M_REACT, M_POST_REACT} ->\n                    IF f.s = NONE \\/ f.m \\in {M_POST_REACT, M_POST_UPDATE} THEN s1 ELSE [s1 EXCEPT !.sub = Max(@, st.ts)]",
    cfgs=["MC_injplan", "MC_plan_q", "MC_log"], note="a report made in postUpdate / postReact for another state does not reach the plan step")
mut("outcome_keeps_high_reports", "      [] t = \"plan_clear\" ->\n            PlanCleared(Push(st, <<>>))",
    "      [] t = \"plan_clear\" ->\n            [Push(st, <<>>) EXCEPT !.plan = <<>>, !.succ = @ \\ {0}, !.fail = @ \\ {0}]",
    cfgs=["MC_plan_q", "MC_planman", "MC_injplan"], note="the end of a plan wipes the reports of state 0 only (reports of higher ids survive)")
mut("own_phase_twice", "                cbs  == [i \\in 1 .. Len(ord) |-> Fr(\"cb\", f.m, f.s, ord[i], f.s)]",
    "                ord2 == IF f.m = M_REACT /\\ Len(ord) >= 2 THEN [i \\in 1 .. Len(ord) |-> 0] ELSE ord\n                cbs  == [i \\in 1 .. Len(ord) |-> Fr(\"cb\", f.m, f.s, ord2[i], f.s)]",
    cfgs=["MC_injplan", "MC_inj"], note="react(): the class's own callback runs once per injection, the injections' never")

def main(argv):
    only = set(argv[argv.index("--only") + 1].split(",")) if "--only" in argv else None
    jobs = int(argv[argv.index("--jobs") + 1]) if "--jobs" in argv else 4
    todo = [m for m in M if not only or m["name"] in only]
    rows = []
    with ThreadPoolExecutor(max_workers=jobs) as ex:
        for name, status, detail, secs in ex.map(lambda m: run_one(m, vlib.SPEC), todo):
            note = next(m["note"] for m in M if m["name"] == name)
            print("%-34s %-20s %5.0fs  %s   [%s]" % (name, status, secs, detail, note), flush=True)
            rows.append({"name": name, "status": status, "detail": detail, "models": note})
    if not only:
        with open(os.path.join(vlib.VERIF, "mutants", "spec_mutants.json"), "w") as f:
            json.dump(rows, f, indent=1)
    print("spec mutants: %d, survived: %d" % (len(rows), sum(1 for r in rows if r["status"] == "SURVIVED")))
    return 0


if __name__ == "__main__":
    sys.path.insert(0, os.path.dirname(os.path.abspath(__file__)))
    sys.exit(main(sys.argv[1:]))
