------------------------------ MODULE FFSM2MC ------------------------------
(* Model-checking wrapper: the environment (API calls, callback decisions) is *)
(* an explicit \E over bounded sets given by the configuration.               *)
EXTENDS Monitors

CONSTANTS
    EnvOps,      \* set of API operation records offered by the environment
    EnvActs,     \* set of act records callbacks may perform
    MaxActs      \* maximum number of acts per callback delivery

VARIABLES st, out,
          tk, bad       \* monitors folded over the events of the behaviour (ghost)

vars == <<st, out, tk, bad>>

CONSTANT WithMonitors   \* fold the monitors (costs states); FALSE keeps tk/bad constant

Tau == [e |-> "tau"]

ActSeqs(kind, sid) ==
    LET legal == {a \in EnvActs : ActLegal(kind, sid, a)} IN
    {<<>>} \cup (IF MaxActs >= 1 THEN {<<a>> : a \in legal} ELSE {})
           \cup (IF MaxActs >= 2 THEN {<<a, b>> : a \in legal, b \in legal} ELSE {})

Init == st = InitSt /\ out = Tau /\ tk = TkInit /\ bad = {}

Fold == IF WithMonitors
        THEN LET tk2 == TkStep(tk, out') IN tk' = tk2 /\ bad' = bad \cup Checks(tk, out', tk2)
        ELSE UNCHANGED <<tk, bad>>

DoCall == /\ Idle(st)
          /\ \E o \in EnvOps :
                /\ InContract(st, o)
                /\ LET res == CallStep(st, o) IN st' = res.st /\ out' = res.out

DoCb == /\ AtCallback(st)
        /\ \E acts \in ActSeqs(CtrlKind(Head(st.k).m), Head(st.k).x) :
              LET res == CbStep(st, acts) IN st' = res.st /\ out' = res.out

DoRet == /\ AtReturn(st)
         /\ LET res == RetStep(st) IN st' = res.st /\ out' = res.out

DoInternal == /\ AtInternal(st)
              /\ st' = Internal(st)
              /\ out' = Tau

Next == (DoCall \/ DoCb \/ DoRet \/ DoInternal) /\ Fold

Spec == Init /\ [][Next]_vars
FairSpec == Spec /\ WF_vars(DoCb \/ DoRet \/ DoInternal)

StView == <<st, tk, bad>>

MonitorsQuiet == bad = {}

NoInj == [i \in 1 .. (N + 1) |-> 0]
AllDef == [i \in 1 .. (N + 1) |-> 32766]
A(k, a, b, p) == [k |-> k, a |-> a, b |-> b, p |-> p]
SmokeOps == {Op("ctor", 0, 0, 0), Op("dtor", 0, 0, 0), Op("update", 0, 0, 0)} \cup {Op("ito", d, 0, 0) : d \in States}
            \cup {Op("pc", 0, 1, 0), Op("succeed", 0, 0, 0)}
SmokeActs == {A("T", d, 0, 0) : d \in States} \cup {A("X", 0, 0, 0), A("S", NONE, 0, 0)}

-----------------------------------------------------------------------------
TypeOK ==
    /\ st.active \in States \cup {NONE}
    /\ st.requested \in States \cup {NONE}
    /\ st.rounds \in 0 .. L
    /\ st.sub \in 0 .. 2 /\ st.ts \in 0 .. 2
    /\ Len(st.plan) <= Cap
    /\ st.succ \subseteq States /\ st.fail \subseteq States

=============================================================================
