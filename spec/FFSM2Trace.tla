----------------------------- MODULE FFSM2Trace -----------------------------
(***************************************************************************)
(* Conformance: drive the FFSM2 specification along a trace recorded from  *)
(* the real implementation (ndjson, one event per line; the file is named  *)
(* by the environment variable TRACE).  Every recorded event must be the   *)
(* event the specification produces for that step - same callback, same    *)
(* view through the control object, same results, same observation at      *)
(* return, same log records - with the internal steps of the library taken *)
(* silently in between.  The trace is accepted iff every line is consumed. *)
(* A file may hold several executions; each starts with a "cfg" event      *)
(* (all with the same constants, which are read from the first line).      *)
(***************************************************************************)
EXTENDS Monitors, Json, IOUtils

VARIABLES st, l, rej, done,     \* conformance: specification state, next line, mismatches (first of each execution), finished
          skip,                 \* after a mismatch: skip to the next execution ("cfg" line)
          tk, lm, bad           \* monitors: tracker, next line, findings <<property, line, why>> (first line per property)

tvars == <<st, l, rej, done, skip, tk, lm, bad>>

TraceLog == ndJsonDeserialize(IOEnv.TRACE)
Cfg == TraceLog[1]

TrN == Cfg.N
TrL == Cfg.L
TrCap == Cfg.cap
TrHasHead == Cfg.head = 1
TrManual == Cfg.manual = 1
TrHasPay == Cfg.pay # 0
TrHasPlans == Cfg.plans = 1
TrHasSerial == Cfg.serial = 1
TrHasHist == Cfg.hist = 1
TrHasLog == Cfg.log = 1
TrVerbose == Cfg.verbose = 1
TrInjCnt == Cfg.inj
TrDefMask == Cfg.def


CbFields  == {"m", "s", "j", "pre", "sid", "cact", "mact", "mia", "ctx", "self", "ev", "req", "cprev", "cur", "pend", "plan", "pfl", "acts", "pfl2", "mact2"}
RetFields == {"op", "r", "pfl", "pre", "act", "ia", "on", "prev", "pne", "pfirst", "plast", "plan"}

Diff(fields, o, e) == {f \in fields : o[f] # e[f]}

ToActs(seq) == [i \in 1 .. Len(seq) |-> [k |-> seq[i].k, a |-> seq[i].a, b |-> seq[i].b, p |-> seq[i].p]]

Reject(why, fields, exp, got) ==
    /\ rej' = IF Len(rej) < 6 THEN Append(rej, [line |-> l, why |-> why, fields |-> fields, exp |-> exp, got |-> got]) ELSE rej
    /\ skip' = TRUE
    /\ UNCHANGED <<st, l, done, tk, lm, bad>>

TInit == st = InitSt /\ l = 1 /\ rej = <<>> /\ done = FALSE /\ skip = FALSE /\ tk = TkInit /\ lm = 1 /\ bad = {}

Silent ==
    /\ ~skip /\ AtInternal(st)
    /\ st' = Internal(st)
    /\ UNCHANGED <<l, rej, done, skip, tk, lm, bad>>

\* after a mismatch the rest of that execution is not comparable: resume at the next "cfg" line
Skip ==
    /\ skip /\ l <= Len(TraceLog)
    /\ IF TraceLog[l].e = "cfg"
       THEN st' = InitSt /\ l' = l + 1 /\ skip' = FALSE
       ELSE l' = l + 1 /\ UNCHANGED <<st, skip>>
    /\ UNCHANGED <<rej, done, tk, lm, bad>>

Consume ==
    /\ ~skip /\ ~AtInternal(st)
    /\ l <= Len(TraceLog)
    /\ LET e == TraceLog[l] IN
       CASE e.e = "cfg" ->
                IF Idle(st) /\ ~st.alive
                THEN st' = InitSt /\ l' = l + 1 /\ UNCHANGED <<rej, done, skip, tk, lm, bad>>
                ELSE Reject("execution ended inside a call or with a live instance", {}, <<>>, e)
         [] e.e = "call" ->
                LET o == Op(e.op, e.a, e.b, e.p) IN
                IF ~Idle(st) THEN Reject("call while the specification expects " \o
                                         (IF AtCallback(st) THEN "a callback" ELSE "the return of the running call"), {},
                                         IF AtCallback(st) THEN Head(st.k) ELSE st.call, e)
                ELSE IF ~InContract(st, o) THEN Reject("call outside the contract in the specification's state", {}, <<>>, e)
                ELSE st' = CallStep(st, o).st /\ l' = l + 1 /\ UNCHANGED <<rej, done, skip, tk, lm, bad>>
         [] e.e = "cb" ->
                IF ~AtCallback(st)
                THEN Reject("callback delivered where the specification expects " \o
                            (IF Idle(st) THEN "no activity" ELSE "the return of the running call"), {}, <<>>, e)
                ELSE LET f == Head(st.k) IN
                     IF f.m # e.m \/ f.s # e.s \/ f.j # e.j
                     THEN Reject("wrong callback delivered", {"m", "s", "j"}, [m |-> f.m, s |-> f.s, j |-> f.j], e)
                     ELSE LET acts == ToActs(e.acts)
                              ok   == \A i \in 1 .. Len(acts) : ActLegal(CtrlKind(f.m), f.x, acts[i])
                          IN  IF ~ok THEN Reject("harness performed an act that is illegal for this control", {}, <<>>, e)
                              ELSE LET res == CbStep(st, acts)
                                       d   == Diff(CbFields, res.out, e)
                                   IN  IF d # {} THEN Reject("callback view / results differ", d, res.out, e)
                                       ELSE st' = res.st /\ l' = l + 1 /\ UNCHANGED <<rej, done, skip, tk, lm, bad>>
         [] e.e = "ret" ->
                IF ~AtReturn(st)
                THEN Reject("call returned where the specification expects " \o
                            (IF AtCallback(st) THEN "a callback" ELSE "no running call"), {},
                            IF AtCallback(st) THEN Head(st.k) ELSE <<>>, e)
                ELSE LET res == RetStep(st)
                         d   == Diff(RetFields, res.out, e)
                     IN  IF d # {} THEN Reject("observation at return differs", d, res.out, e)
                         ELSE st' = res.st /\ l' = l + 1 /\ UNCHANGED <<rej, done, skip, tk, lm, bad>>
         [] OTHER -> Reject("unexpected event (crash / runaway / truncated trace)", {}, <<>>, e)

ConfDone == l > Len(TraceLog) /\ (skip \/ ~AtInternal(st))

\* monitors run after conformance has finished, over the same lines
MonStep ==
    /\ ConfDone /\ lm <= Len(TraceLog)
    /\ LET e   == TraceLog[lm]
           j   == Judge(tk, e)
           f   == j.findings
       IN  /\ tk' = j.tk
           /\ lm' = lm + 1
           /\ bad' = bad \cup {<<x[1], lm, x[2]>> : x \in {y \in f : ~\E b \in bad : b[1] = y[1]}}
    /\ UNCHANGED <<st, l, rej, done, skip>>

Finish ==
    /\ ~done /\ ConfDone /\ lm > Len(TraceLog)
    /\ done' = TRUE
    /\ \A q \in 1 .. Len(rej) :
          PrintT(<<"TRACE-REJECTED", rej[q].line, rej[q].why, rej[q].fields, "EXPECTED", rej[q].exp, "GOT", rej[q].got>>)
    /\ IF ~skip /\ ~Idle(st)
       THEN PrintT(<<"TRACE-REJECTED", l, "trace ends inside a call", {}, "EXPECTED",
                     IF AtCallback(st) THEN Head(st.k) ELSE st.call, "GOT", <<>>>>)
       ELSE TRUE
    /\ IF rej = <<>> /\ ~skip /\ Idle(st) THEN PrintT(<<"TRACE-ACCEPTED", Len(TraceLog)>>) ELSE TRUE
    /\ PrintT(<<"MONITOR-FINDINGS", bad>>)
    /\ UNCHANGED <<st, l, rej, skip, tk, lm, bad>>

TNext == \/ (~ConfDone /\ (Silent \/ Consume \/ Skip))
         \/ MonStep
         \/ Finish

TSpec == TInit /\ [][TNext]_tvars

=============================================================================
