"""Trace preparation: split a raw harness trace into per-instance traces the single-machine
specification can follow (a copy-constructed instance continues the history of its source)."""
import json


def load(path):
    out = []
    with open(path) as f:
        for n, line in enumerate(f, 1):
            line = line.strip()
            if not line:
                continue
            try:
                out.append(json.loads(line))
            except ValueError:
                out.append({"e": "garbled", "line": n})
    return out


def executions(events):
    """-> list of (cfg, [events]) ; a trailing 'end' marks a complete recording"""
    segs, cur = [], None
    complete = False
    for e in events:
        if e["e"] == "cfg":
            cur = (e, [])
            segs.append(cur)
        elif e["e"] == "end":
            complete = True
        elif cur is not None:
            cur[1].append(e)
    return segs, complete


def per_instance(evs):
    """virtual per-instance traces within one execution, in order of first appearance"""
    virt, order = {}, []
    for e in evs:
        if e["e"] == "mark":
            continue
        i = e.get("i", 0)
        if i not in virt:
            order.append(i)
            if e["e"] == "call" and e.get("op") in ("copy", "move") and e.get("a") in virt:
                virt[i] = list(virt[e["a"]])
            else:
                virt[i] = []
        virt[i].append(e)
    return [(i, virt[i]) for i in order]


def write_for_tlc(raw_path, out_path, merged=False):
    """merged=False: cfg + one instance's events, per instance (for the conformance spec).
    merged=True: cfg + all events of the execution in recording order (for cross-instance monitors).
    returns number of executions written"""
    segs, complete = executions(load(raw_path))
    n = 0
    with open(out_path, "w") as f:
        for cfg, evs in segs:
            if not evs:
                continue
            if merged:
                f.write(json.dumps(cfg, separators=(",", ":")) + "\n")
                for e in evs:
                    f.write(json.dumps(e, separators=(",", ":")) + "\n")
                n += 1
            else:
                for i, tr in per_instance(evs):
                    f.write(json.dumps(cfg, separators=(",", ":")) + "\n")
                    for e in tr:
                        f.write(json.dumps(e, separators=(",", ":")) + "\n")
                    n += 1
        if not complete:
            f.write('{"e":"truncated"}\n')
    return n


if __name__ == "__main__":
    import sys
    print(write_for_tlc(sys.argv[1], sys.argv[2], len(sys.argv) > 3 and sys.argv[3] == "merged"))
