#!/bin/bash
# intake_seed.sh <worktree> <property> <name> "<change>" "<needs>" [round]
# Takes a sub-agent's deliverables (<worktree>/SEED/{patch.diff,demo.cpp,README.md}) into /verif/seeded/<name>/,
# confirms them with confirm_seed.sh in a fresh scratch worktree, writes meta.json, removes the agent's worktree.
wt=$1; prop=$2; name=$3; change=$4; needs=$5; round=${6:-fourth}
dst=/verif/seeded/$name
[ -f $wt/SEED/patch.diff ] || { echo "no patch in $wt/SEED"; exit 2; }
mkdir -p $dst
cp $wt/SEED/patch.diff $dst/patch.diff
cp $wt/SEED/demo.cpp $dst/demo.cpp
[ -f $wt/SEED/README.md ] && cp $wt/SEED/README.md $dst/agent_README.md
conf=$(/verif/lib/confirm_seed.sh $name $dst)
echo "$conf" > $dst/confirm.json
python3 - "$dst" "$prop" "$change" "$needs" "$round" <<'P'
import json, sys
dst, prop, change, needs, rnd = sys.argv[1:6]
conf = json.load(open(dst + "/confirm.json"))
meta = {"property": prop,
        "origin": "written by an independent sub-agent (%s round) given only the property text and a scratch worktree" % rnd,
        "change": change, "needs": needs,
        "confirmed": "lib/confirm_seed.sh in a fresh scratch worktree of /repo", "confirmation": conf}
json.dump(meta, open(dst + "/meta.json", "w"), indent=1)
ok = conf["patch_applies"] and conf["suite_passes_with_change"] and conf["demo_exit_without_change"] == "0" and conf["demo_exit_with_change"] not in ("0", "compile_error")
print(("CONFIRMED " if ok else "NOT-CONFIRMED ") + json.dumps(conf))
P
git -C /repo worktree remove --force $wt 2>/dev/null; rm -rf $wt
