------------------------------ MODULE FFSM2Sim ------------------------------
(* Behaviours of the specification for replay on the implementation.  TLC's   *)
(* simulation mode walks random behaviours of FFSM2MC (unrestricted           *)
(* environment, constants of the configuration).  The environment's choices   *)
(* (next API call, what each callback does) are drawn with RandomElement, so  *)
(* each step generates ONE successor instead of all (the unrestricted         *)
(* environment has thousands per delivery).  The ghost variable `hist'        *)
(* collects the script tokens of the steps (FFSM2MC!lbl); every behaviour     *)
(* that reaches the configured depth is printed as one JSON line.  The lines  *)
(* are turned into harness scripts (one API call per line with the decisions  *)
(* of its callbacks), executed on the real machine, and the recorded trace is *)
(* validated against FFSM2.tla like any other: specification -> code.         *)
EXTENDS FFSM2MC, Json

CONSTANTS ExportDepth, ActPct
VARIABLE hist

simvars == <<st, out, tk, bad, lbl, hist>>

SimInit == Init /\ hist = <<>>

SimCall == /\ Idle(st)
           /\ LET ops == {o \in EnvOps : InContract(st, o)} IN
              /\ ops # {}
              /\ \E o \in {RandomElement(ops)} :
                    /\ LET res == CallStep(st, o) IN st' = res.st /\ out' = res.out
                    /\ lbl' = "call|" \o o.op \o "|" \o ToString(o.a) \o "|" \o ToString(o.b) \o "|" \o ToString(o.p)

SimCb == /\ AtCallback(st)
         /\ LET f     == Head(st.k)
                legal == {a \in EnvActs : ActLegal(CtrlKind(f.m), f.x, a)}
            IN  \E r \in {RandomElement(1 .. 100)} :
                LET n == IF legal = {} \/ ~MayAct(f) \/ r > ActPct THEN 0 ELSE IF r * 4 <= ActPct THEN 2 ELSE 1 IN
                \E acts \in {[i \in 1 .. n |-> RandomElement(legal)]} :
                   /\ LET res == CbStep(st, acts) IN st' = res.st /\ out' = res.out
                   /\ lbl' = "cb|" \o ToString(f.m) \o "." \o ToString(f.s) \o "." \o ToString(f.j) \o ":" \o ActsStr(acts, 1)

SimNext == /\ (SimCall \/ SimCb \/ DoRet \/ DoInternal) /\ Fold
           /\ hist' = IF lbl' = "tau" THEN hist ELSE Append(hist, lbl')

\* state constraint: prints the behaviour once, when it reaches the export depth
Export == IF TLCGet("level") = ExportDepth THEN PrintT("BEHAVIOUR " \o ToJson(hist)) ELSE TRUE
=============================================================================
