"""Component models (TaskList/Plan, BitArray, Arrays, BitStream): exhaustive model checking, tours through the
model's state graph replayed on the real component (one implementation test per transition of the model),
seeded random and enumerated operation sequences, all validated by TLC against CompTrace.tla."""
import json
import os
import random
import re
import shutil
import subprocess
import time
from concurrent.futures import ThreadPoolExecutor

import mc
import vlib


# ----------------------------------------------------------------------------- building / running comp.cpp

def build_comp(cap, dev=0):
    key = vlib.sha(vlib.repo_hash(), vlib.harness_hash(), "comp", str(cap), str(dev), vlib.CXX)
    d = vlib.ensure(os.path.join(vlib.BUILD, key))
    exe = os.path.join(d, "comp%d" % cap)
    if os.path.exists(exe):
        return exe, ""
    cmd = [vlib.CXX, "-std=c++11", "-O0", "-w", "-DFFSM2_VERIF", "-DVC_CAP=%d" % cap, "-DVH_DEV=%d" % dev,
           "-I", os.path.join(vlib.REPO, "include"), "-I", os.path.join(vlib.REPO, "development"),
           os.path.join(vlib.HARNESS, "comp.cpp"), "-o", exe + ".tmp"]
    r = subprocess.run(cmd, stdout=subprocess.PIPE, stderr=subprocess.STDOUT, universal_newlines=True)
    if r.returncode != 0:
        return None, r.stdout[-2500:]
    os.rename(exe + ".tmp", exe)
    return exe, ""


def run_comp(exe, script, trace, timeout=120):
    try:
        r = subprocess.run([exe, "-", trace], input=script, universal_newlines=True, stdout=subprocess.PIPE, stderr=subprocess.STDOUT, timeout=timeout)
        return r.returncode
    except subprocess.TimeoutExpired:
        return -9


def validate_comp(trace, tag):
    rc, out, secs = vlib.run_tlc("CompTrace.tla", "CompTrace.cfg", os.path.join(vlib.WORK, "meta", "comp." + tag), env={"TRACE": trace},
                                 workers=1, heap="4g", timeout=1800)
    printed = vlib._collect_printed(out)
    res = {"accepted": False, "rejected": [], "error": None, "secs": round(secs, 1)}
    for p in printed:
        if "COMP-ACCEPTED" in p[:22]:
            res["accepted"] = True
        elif "COMP-REJECTED" in p[:22]:
            m = re.match(r'<<\s*"COMP-REJECTED",\s*(\d+),\s*"([^"]*)"', p)
            res["rejected"].append({"line": int(m.group(1)) if m else 0, "why": m.group(2) if m else "?", "detail": p[:1500]})
    if not res["accepted"] and not res["rejected"]:
        res["error"] = out[-2000:]
    return res


# ----------------------------------------------------------------------------- tours through a model's state graph

def tla_rec(d):
    def val(v):
        if isinstance(v, bool):
            return "TRUE" if v else "FALSE"
        if isinstance(v, int):
            return str(v)
        if isinstance(v, str):
            return '"%s"' % v
        if isinstance(v, (list, tuple)):
            return "<<" + ", ".join(val(x) for x in v) + ">>"
        if isinstance(v, (set, frozenset)):
            return "{" + ", ".join(val(x) for x in sorted(v)) + "}"
        raise TypeError(v)
    return "[" + ", ".join("%s |-> %s" % (k, val(v)) for k, v in d.items()) + "]"


import threading
_graph_lock = threading.Lock()
_graph_cache = {}


def state_graph(module, ops, do_template, constants, name):
    with _graph_lock:
        if name not in _graph_cache:
            _graph_cache[name] = _state_graph(module, ops, do_template, constants, name)
        return _graph_cache[name]


def _state_graph(module, ops, do_template, constants, name):
    """generate a wrapper module with one named action per operation, let TLC dump the state graph;
    returns (init node, edges list of (u, op index, v), distinct states)"""
    d = vlib.ensure(os.path.join(vlib.WORK, "tour", name))
    wrapper = "Tour_" + name
    lines = ["---- MODULE %s ----" % wrapper, "EXTENDS " + module, do_template]
    for k, o in enumerate(ops):
        lines.append("Op_%d == Do(%s)" % (k, tla_rec(o)))
    lines.append("TourNext == " + " \\/ ".join("Op_%d" % k for k in range(len(ops))))
    lines.append("====")
    with open(os.path.join(d, wrapper + ".tla"), "w") as f:
        f.write("\n".join(lines) + "\n")
    with open(os.path.join(d, wrapper + ".cfg"), "w") as f:
        f.write("CONSTANTS\n" + "\n".join("  " + c for c in constants) + "\nINIT Init\nNEXT TourNext\nVIEW StateView\nCHECK_DEADLOCK FALSE\n")
    dot = os.path.join(d, "graph.dot")
    vlib.ensure(os.path.join(d, "meta"))
    cmd = ["java", "-XX:+UseSerialGC", "-Xmx4g", "-DTLA-Library=" + vlib.SPEC, "-cp", vlib.TLA_CP, "tlc2.TLC", "-workers", "1", "-noGenerateSpecTE",
           "-metadir", os.path.join(d, "meta"), "-dump", "dot,actionlabels", dot, "-config", wrapper + ".cfg", wrapper + ".tla"]
    r = subprocess.run(cmd, cwd=d, stdout=subprocess.PIPE, stderr=subprocess.STDOUT, universal_newlines=True, timeout=1200)
    shutil.rmtree(os.path.join(d, "meta"), ignore_errors=True)
    if "Model checking completed. No error has been found." not in r.stdout:
        raise RuntimeError("TLC graph dump failed for %s:\n%s" % (name, r.stdout[-1500:]))
    init, edges, nodes = None, [], set()
    node_re = re.compile(r'^(-?\d+) \[label=')
    edge_re = re.compile(r'^(-?\d+) -> (-?\d+) \[label="(.*?)",color=')
    norm = lambda t: re.sub(r'[\s\\\\]', "", t)
    by_label = {}
    for k, o in enumerate(ops):
        by_label[norm("Do(%s)" % tla_rec(o))] = k
        by_label["Op_%d" % k] = k
    with open(dot) as f:
        for line in f:
            m = edge_re.match(line)
            if m:
                k = by_label.get(norm(m.group(3)))
                if k is None:
                    raise RuntimeError("unrecognised edge label in state graph: " + m.group(3)[:200])
                edges.append((m.group(1), k, m.group(2)))
                continue
            m = node_re.match(line)
            if m:
                nodes.add(m.group(1))
                if init is None and "style = filled" in line:
                    init = m.group(1)
    os.remove(dot)
    return init, edges, len(nodes)


def edge_tours(init, edges, max_len=4000):
    """paths from the initial state that together cover every edge: greedy nearest-uncovered-edge walk"""
    out_edges = {}
    for e in edges:
        out_edges.setdefault(e[0], []).append(e)
    uncovered = set(edges)
    tours, cur, path = [], init, []
    while uncovered:
        # BFS from cur to the nearest node with an uncovered out-edge
        prev, queue, target = {cur: None}, [cur], None
        while queue and target is None:
            nq = []
            for u in queue:
                if any(e in uncovered for e in out_edges.get(u, [])):
                    target = u
                    break
                for e in out_edges.get(u, []):
                    if e[2] not in prev:
                        prev[e[2]] = e
                        nq.append(e[2])
            queue = nq
        if target is None:
            if not path and cur == init:
                break       # unreachable rest
            tours.append(path)
            cur, path = init, []
            continue
        back = []
        u = target
        while prev[u] is not None:
            back.append(prev[u])
            u = prev[u][0]
        path += list(reversed(back))
        e = next(x for x in out_edges[target] if x in uncovered)
        uncovered.discard(e)
        path.append(e)
        cur = e[2]
        if len(path) >= max_len:
            tours.append(path)
            cur, path = init, []
    if path:
        tours.append(path)
    return tours, len(uncovered)


def machine_tour_script(cfg="MC_tour"):
    """edge-covering tours of the machine model's state graph (FFSM2MC with a tiny environment) as a harness script:
    one implementation test per transition of the model; the recorded trace is then validated like any other"""
    name = "machine_" + cfg
    with _graph_lock:
        if name in _graph_cache:
            return _graph_cache[name]
        d = vlib.ensure(os.path.join(vlib.WORK, "tour", name))
        dot = os.path.join(d, "graph.dot")
        vlib.ensure(os.path.join(d, "meta"))
        cmd = ["java", "-XX:+UseSerialGC", "-Xmx6g", "-cp", vlib.TLA_CP, "tlc2.TLC", "-workers", "1", "-noGenerateSpecTE",
               "-metadir", os.path.join(d, "meta"), "-dump", "dot,actionlabels", dot, "-config", cfg + ".cfg", "FFSM2MC.tla"]
        r = subprocess.run(cmd, cwd=vlib.SPEC, stdout=subprocess.PIPE, stderr=subprocess.STDOUT, universal_newlines=True, timeout=1800)
        shutil.rmtree(os.path.join(d, "meta"), ignore_errors=True)
        if "Model checking completed. No error has been found." not in r.stdout:
            raise RuntimeError("TLC graph dump failed for %s:\n%s" % (cfg, r.stdout[-1500:]))
        init, labels, edges = None, {}, []
        node_re = re.compile(r'^(-?\d+) \[label="(.*)"')
        edge_re = re.compile(r'^(-?\d+) -> (-?\d+) \[label=')
        lbl_re = re.compile(r'lbl = \\"([^"\\]*)\\"')
        with open(dot) as f:
            for line in f:
                m = edge_re.match(line)
                if m:
                    edges.append((m.group(1), m.group(2)))
                    continue
                m = node_re.match(line)
                if m:
                    lm = lbl_re.search(line)
                    labels[m.group(1)] = lm.group(1) if lm else "?"
                    if init is None and "style = filled" in line:
                        init = m.group(1)
        os.remove(dot)
        tours, left = edge_tours(init, [(u, labels.get(v, "?"), v) for u, v in edges], max_len=100000)
        lines = []
        for t in tours:
            lines.append("reset")
            cur = None
            for (_, lbl, _) in t:
                parts = lbl.split("|")
                if parts[0] == "call":
                    if cur is not None:
                        lines.append(cur[0] + (" | " + " ; ".join(cur[1]) if cur[1] else ""))
                    cur = ["@0 %s %s %s %s" % (parts[1], parts[2], parts[3], parts[4]), []]
                elif parts[0] == "cb" and cur is not None:
                    key, acts = parts[1].split(":", 1)
                    cur[1].append("%s:%s" % (key, acts))
            if cur is not None:
                lines.append(cur[0] + (" | " + " ; ".join(cur[1]) if cur[1] else ""))
        res = ("\n".join(lines) + "\n", {"model_states": len(labels), "model_transitions": len(edges), "uncovered": left, "tours": len(tours)})
        _graph_cache[name] = res
        return res


# ----------------------------------------------------------------------------- per-component scripts

PLAN_VALS = [(0, 0), (0, 1), (1, 0)]


def plan_ops(cap):
    return [{"op": "append", "v": list(v), "n": 0} for v in PLAN_VALS] + [{"op": "remove", "v": [0, 0], "n": n} for n in range(1, cap + 1)] + \
           [{"op": "clear", "v": [0, 0], "n": 0}, {"op": "dataclear", "v": [0, 0], "n": 0}] + \
           [{"op": "sweep", "v": [0, 0], "n": m} for m in range(1, 2 ** cap)]


PLAN_DO = 'Do(o) == Enabled(s, o) /\\ LET a == Apply(s, o) IN s\' = a.s /\\ lastop\' = [op |-> o.op, v |-> o.v, n |-> o.n, r |-> a.r]'


def plan_line(o):
    if o["op"] == "append":
        return "plan append %d %d" % (o["v"][0], o["v"][1])
    if o["op"] == "remove":
        return "plan remove %d" % o["n"]
    if o["op"] == "sweep":
        return "plan sweep %d" % o["n"]
    return "plan " + o["op"]


def plan_tour_script(cap):
    ops = plan_ops(cap)
    init, edges, nstates = state_graph("TaskList", ops, PLAN_DO, ["CapT = %d" % cap, "Vals <- Vals3"], "plan%d" % cap)
    tours, left = edge_tours(init, edges)
    lines = []
    for t in tours:
        lines.append("plan new")
        lines += [plan_line(ops[e[1]]) for e in t]
    return "\n".join(lines) + "\n", {"model_states": nstates, "model_transitions": len(edges), "uncovered": left, "tours": len(tours)}


def plan_wear_script(cap, rng):
    """slots are reusable indefinitely: within ONE activation the plan is filled, then taken from full to one short of full and
    back several hundred times (more often than any 8-bit bookkeeping counter can count), removing at varying positions;
    every step is compared with the model (which has no such limit)"""
    lines = ["plan new"]
    for k in range(cap):
        lines.append("plan append %d %d" % (k % 2, (k // 2) % 2))
    lines.append("plan append 1 1")         # refused: full
    rounds = 300 if cap <= 64 else 40
    for r in range(rounds):
        if cap > 1 and r % 7 == 3:
            lines.append("plan sweep %d" % (1 << rng.randrange(min(cap, 16))))
        else:
            lines.append("plan remove %d" % rng.randrange(1, cap + 1))
        lines.append("plan append %d %d" % (r % 2, (r // 2) % 2))
        if r % 50 == 49:
            lines.append("plan append 0 1")     # refused: full again
    lines.append("plan clear")
    for k in range(cap):
        lines.append("plan append %d %d" % (k % 2, 1))
    return "\n".join(lines) + "\n"


def plan_random_script(cap, rng, nops):
    lines = ["plan new"]
    n = 0
    for _ in range(nops):
        c = rng.random()
        if c < 0.5:
            lines.append("plan append %d %d" % (rng.randrange(2), rng.randrange(2)))
        elif c < 0.8:
            lines.append("plan remove %d" % rng.randrange(1, min(cap, 12) + 2))
        elif c < 0.9:
            lines.append("plan sweep %d" % rng.randrange(1, 2 ** min(cap, 16)))
        elif c < 0.96:
            lines.append("plan clear")
        else:
            lines.append("plan dataclear")
    return "\n".join(lines) + "\n"


def ba_ops(cap):
    return [{"op": "set", "i": i, "m": set()} for i in range(cap)] + [{"op": "clear", "i": i, "m": set()} for i in range(cap)] + \
           [{"op": "setall", "i": 0, "m": set()}, {"op": "clearall", "i": 0, "m": set()}] + \
           [{"op": "and", "i": k, "m": m} for k, m in enumerate(ba_masks(cap))]


def ba_masks(cap):
    idx = range(cap)
    return [frozenset(i for i in idx if i % 2 == 0), frozenset(i for i in idx if i % 3 == 1), frozenset(i for i in idx if i != cap - 1), frozenset()]


BA_DO = "Do(o) == b' = Apply(b, o) /\\ lastop' = o"


def ba_line(o):
    if o["op"] in ("set", "clear"):
        return "ba %s %d" % (o["op"], o["i"])
    if o["op"] == "and":
        return "ba and %d" % o["i"]
    return "ba " + o["op"]


def ba_tour_script(cap):
    ops = ba_ops(cap)
    # the "and" ops carry the mask id in field i for the script; the model takes the set itself
    model_ops = [dict(o, i=0) if o["op"] == "and" else o for o in ops]
    init, edges, nstates = state_graph("BitArray", model_ops, BA_DO, ["CapB = %d" % cap, "Masks <- MasksFor"], "ba%d" % cap)
    tours, left = edge_tours(init, edges)
    lines = []
    for t in tours:
        lines.append("ba new")
        lines += [ba_line(ops[e[1]]) for e in t]
    return "\n".join(lines) + "\n", {"model_states": nstates, "model_transitions": len(edges), "uncovered": left, "tours": len(tours)}


def ba_random_script(cap, rng, nops):
    lines = ["ba new"]
    for _ in range(nops):
        c = rng.random()
        if c < 0.4:
            lines.append("ba set %d" % rng.randrange(cap))
        elif c < 0.8:
            lines.append("ba clear %d" % rng.randrange(cap))
        elif c < 0.87:
            lines.append("ba setall")
        elif c < 0.92:
            lines.append("ba clearall")
        else:
            lines.append("ba and %d" % rng.randrange(4))
    # the F8 history: set all, clear every bit one by one
    lines += ["ba setall"] + ["ba clear %d" % i for i in range(cap)]
    return "\n".join(lines) + "\n"


AR_DO = "Do(o) == Enabled(a, o) /\\ a' = Apply(a, o) /\\ lastop' = o /\\ before' = a"
AR_VALS = [0, 1]


def ar_ops(cap):
    return [{"op": "sset", "i": i, "v": v} for i in range(cap) for v in AR_VALS] + [{"op": "sfill", "i": 0, "v": v} for v in AR_VALS] + \
           [{"op": o, "i": 0, "v": 0} for o in ("sclear", "dclear", "bclear", "dappend")] + \
           [{"op": o, "i": 0, "v": v} for o in ("demplace", "dpush", "bemplace", "dchaina") for v in AR_VALS] + \
           [{"op": "dchain", "i": w, "v": v} for v in AR_VALS for w in AR_VALS]


def ar_line(o):
    if o["op"] == "sset":
        return "ar sset %d %d" % (o["i"], o["v"])
    if o["op"] in ("sfill", "demplace", "dpush", "bemplace", "dchaina"):
        return "ar %s %d" % (o["op"], o["v"])
    if o["op"] == "dchain":
        return "ar dchain %d %d" % (o["v"], o["i"])
    return "ar " + o["op"]


def ar_tour_script(cap):
    """every transition of the Arrays model at this capacity (fixed array, growable array, second growable array, append)"""
    ops = ar_ops(cap)
    init, edges, nstates = state_graph("Arrays", ops, AR_DO, ["CapA = %d" % cap, "ElemVals = {0, 1}"], "ar%d" % cap)
    tours, left = edge_tours(init, edges)
    lines = []
    for t in tours:
        lines.append("ar new")
        lines += [ar_line(ops[e[1]]) for e in t]
    return "\n".join(lines) + "\n", {"ar_model_states": nstates, "ar_model_transitions": len(edges), "ar_uncovered": left, "ar_tours": len(tours)}


def ar_random_script(cap, rng, nops):
    lines = ["ar new"]
    cnt = 0
    bcnt = 0
    for _ in range(nops):
        c = rng.random()
        if c < 0.12 and bcnt < cap:
            lines.append("ar bemplace %d" % rng.randrange(1000))
            bcnt += 1
        elif c < 0.14:
            lines.append("ar bclear")
            bcnt = 0
        elif c < 0.22:
            if cnt + bcnt <= cap:
                lines.append("ar dappend")
                cnt += bcnt
        elif c < 0.26:
            if cnt < cap:
                lines.append("ar %s %d" % (rng.choice(["dpush", "dpushm"]), rng.randrange(1000)))
                cnt += 1
        elif c < 0.28:
            if cnt + 2 <= cap:
                lines.append("ar dchain %d %d" % (rng.randrange(1000), rng.randrange(1000)))
                cnt += 2
        elif c < 0.30:
            if cnt + 1 + bcnt <= cap:
                lines.append("ar dchaina %d" % rng.randrange(1000))
                cnt += 1 + bcnt
        elif c < 0.45:
            lines.append("ar sset %d %d" % (rng.randrange(cap), rng.randrange(1000)))
        elif c < 0.52:
            lines.append("ar sfill %d" % rng.randrange(1000))
        elif c < 0.55:
            lines.append("ar snew %d" % rng.randrange(1, 1000))      # constructed from a filler value
        elif c < 0.6:
            lines.append("ar sclear")
        elif c < 0.93 and cnt < cap:
            lines.append("ar demplace %d" % rng.randrange(1000))
            cnt += 1
        elif c >= 0.93:
            lines.append("ar dclear")
            cnt = 0
    return "\n".join(lines) + "\n"


def _patterns(w, rng):
    full = (1 << w) - 1
    alt = sum(1 << k for k in range(0, w, 2))
    ps = [0, full, 1, 1 << (w - 1), alt, rng.randrange(full + 1)]
    return ps


def bs_script(cap, rng, nseq, exhaustive_small):
    """field sequences whose total fits the capacity: every (start offset, width) pair - the offset produced by a padding field
    and by opening the stream at that start cursor -, each also followed by data (ones), boundary values; random sequences"""
    lines = []
    seqs = []       # (start cursor or None, [field widths; negative = all ones])
    widths = list(range(1, min(32, cap) + 1))
    if exhaustive_small:
        for off in range(0, min(8, cap)):
            for w in widths:
                if off + w > cap:
                    continue
                tail = min(8, cap - off - w)
                variants = [[w]] + ([[w, -tail]] if tail >= 1 else [])
                for fields in variants:
                    seqs.append((None, ([off] if off else []) + fields))
                    if off:
                        seqs.append((off, fields))
    for k in range(nseq):
        at = rng.randrange(0, min(cap, 24)) if k % 3 == 2 else None
        tot, fs = (at or 0), []
        while tot < cap and len(fs) < 6:
            w = rng.choice(widths)
            if tot + w > cap:
                break
            fs.append(w)
            tot += w
        if fs:
            seqs.append((at, fs))
    for at, fs in seqs:
        lines.append("bs new" if at is None else "bs newat %d" % at)
        ones = [w < 0 for w in fs]
        fs = [abs(w) for w in fs]
        for k, w in enumerate(fs):
            v = ((1 << w) - 1) if ones[k] else rng.choice(_patterns(w, rng))
            lines.append("bs write %d %d %d" % (w, v & 0xFFFF, v >> 16))
        for w in fs:
            lines.append("bs read %d" % w)
    return "\n".join(lines) + "\n", len(seqs)


def bw_script(rng, n):
    lines = []
    vals = list(range(0, 600)) + [(1 << k) + d for k in range(1, 32) for d in (-1, 0, 1)] + [0xFFFFFFFF, 0x7FFFFFFF, 0x80000000] + \
           [rng.randrange(1 << 32) for _ in range(n)]
    for v in vals:
        v &= 0xFFFFFFFF
        lines.append("bw q %d %d" % (v & 0xFFFF, v >> 16))
    return "\n".join(lines) + "\n", len(vals)


# ----------------------------------------------------------------------------- the three component checks

def _run(kind, tier, seed, caps, script_fn, mc_cfgs, mc_module):
    """generic driver: model checking of the component, scripts per capacity on the real code, TLC validation"""
    t0 = time.time()
    out = {"findings": [], "infra": [], "coverage": {}}
    states = trans = 0
    mcs = []
    for cfg in mc_cfgs:
        module = mc_module or ("Arrays.tla" if cfg.startswith("AR_") else "BitArray.tla")
        r = mc.run_config(cfg, module=module, workers=8, heap="8g", timeout=1500)
        mcs.append({"config": cfg, "distinct": r["distinct"], "generated": r["generated"], "depth": r["depth"], "ok": r["ok"], "secs": r["secs"]})
        states += r["distinct"]
        trans += r["generated"]
        vlib.log("MC %-13s %-10s distinct=%d generated=%d %s" % (module, cfg, r["distinct"], r["generated"], "ok" if r["ok"] else "FAILED"))
        if not r["ok"]:
            out["infra"].append("model checking %s/%s failed: %s" % (module, cfg, r.get("violated") or r.get("error", "")[-500:]))
    wd = vlib.ensure(os.path.join(vlib.WORK, "comp", vlib.sha(vlib.repo_hash(), vlib.harness_hash(), vlib.spec_hash(), kind, tier, str(seed))))
    jobs = []
    for cap in caps:
        for dev in ((0, 1) if cap == caps[0] else (0,)):
            jobs.append((cap, dev))

    def one(job):
        cap, dev = job
        exe, blog = build_comp(cap, dev)
        if exe is None:
            return cap, dev, None, "comp.cpp does not build for capacity %d: %s" % (cap, blog[-600:]), {}
        rng = random.Random("%s-%d-%d" % (kind, cap, seed))
        script, info = script_fn(cap, rng, tier)
        base = os.path.join(wd, "%s_cap%d_dev%d" % (kind, cap, dev))
        with open(base + ".script", "w") as f:
            f.write(script)
        rc = run_comp(exe, script, base + ".ndjson")
        v = validate_comp(base + ".ndjson", "%s.%d.%d" % (kind, cap, dev))
        info = dict(info, events=script.count("\n"), capacity=cap, header="development" if dev else "single", accepted=v["accepted"], secs=v["secs"])
        return cap, dev, (base, v), None, info

    per_cap = []
    with ThreadPoolExecutor(max_workers=max(2, vlib.NCPU - 2)) as ex:
        for cap, dev, res, err, info in ex.map(one, jobs):
            if err:
                out["infra"].append(err)
                continue
            base, v = res
            per_cap.append(info)
            if v["error"]:
                out["infra"].append("TLC failed on %s: %s" % (base, v["error"][-500:]))
            for rj in v["rejected"][:2]:
                d = os.path.join(vlib.EVIDENCE, "replays", kind, "cap%d_dev%d" % (cap, dev))
                shutil.rmtree(d, ignore_errors=True)
                vlib.ensure(d)
                shutil.copy(base + ".script", os.path.join(d, "script.txt"))
                shutil.copy(base + ".ndjson", os.path.join(d, "trace.ndjson"))
                with open(os.path.join(d, "finding.json"), "w") as f:
                    json.dump({"kind": "component", "component": kind, "capacity": cap, "dev": dev, "property": KIND_PROP[kind], "profile": "", "profile_def": {},
                               "finding": rj}, f, indent=1)
                out["findings"].append({"what": "capacity %d (%s header) line %d: %s %s" % (cap, "development" if dev else "single", rj["line"], rj["why"], rj["detail"][:700]),
                                        "signature": "%s cap%d %s" % (kind, cap, rj["why"]), "replay": d})
    cdir = os.path.join(vlib.WORK, "comp")
    entries = sorted(((os.path.getmtime(os.path.join(cdir, e)), e) for e in os.listdir(cdir)), reverse=True)
    for _, e in entries[9:]:
        shutil.rmtree(os.path.join(cdir, e), ignore_errors=True)
    out["coverage"] = {"states": states, "transitions": trans,
                       "traces_validated_against_impl": sum(1 for c in per_cap if c["accepted"]),
                       "samples": [{"component_runs": per_cap[:4]}],
                       "component_model_checking": mcs, "component_runs": per_cap,
                       "implementation_executions": len(per_cap), "implementation_events": sum(c.get("events", 0) for c in per_cap), "component_wall_s": round(time.time() - t0, 1)}
    return out


KIND_PROP = {"plan": "C10", "bits": "C20", "stream": "C13"}


def replay(d, fj):
    cap, dev, kind = fj["capacity"], fj["dev"], fj["component"]
    exe, blog = build_comp(cap, dev)
    if exe is None:
        print("comp.cpp does not build:", blog[-800:])
        return 2
    tr = os.path.join(vlib.ensure(os.path.join(vlib.WORK, "replay")), "comp.ndjson")
    run_comp(exe, open(os.path.join(d, "script.txt")).read(), tr)
    v = validate_comp(tr, "replay")
    for rj in v["rejected"]:
        print("FINDING line=%d %s" % (rj["line"], rj["why"]))
    if v["rejected"]:
        print("VIOLATION property=%s replay=%s" % (fj["property"], d))
        return 1
    print("not reproduced")
    return 0 if v["accepted"] else 2


def extra_c10(tier, seed):
    q = tier == "quick"

    def script(cap, rng, tier_):
        info = {}
        text = ""
        if cap <= (3 if q else 4):
            text, info = plan_tour_script(cap)
        text += plan_random_script(cap, rng, 300 if q else 3000)
        text += plan_wear_script(cap, rng)
        return text, info
    caps = [1, 2, 3, 4, 8, 254] if q else [1, 2, 3, 4, 5, 8, 17, 64, 128, 254]
    return _run("plan", tier, seed, caps, script, ["TL_cap1", "TL_cap2", "TL_cap3"] + ([] if q else ["TL_cap4", "TL_cap5", "TL_cap6"]), "TaskList.tla")


def extra_c20(tier, seed):
    q = tier == "quick"

    def script(cap, rng, tier_):
        info = {}
        text = ""
        if cap <= (8 if q else 9):
            text, info = ba_tour_script(cap)
        if cap in (2, 3) and (cap == 2 or not q):
            t2, i2 = ar_tour_script(cap)
            text += t2
            info.update(i2)
        text += ba_random_script(cap, rng, 200 if q else 3000)
        if cap <= 255:      # the arrays' capacity parameter is a `Long' (uint8_t): larger capacities cannot be expressed, only the bit array's `unsigned' can
            text += ar_random_script(cap, rng, 150 if q else 2000)
        return text, info
    # 300 / 257 / 512: beyond what an 8-bit index can hold (the index type widens with the capacity; an index narrowed to a byte aliases i and i % 256)
    caps = [1, 2, 7, 8, 9, 12, 17, 64, 250, 255, 300] if q else [1, 2, 3, 7, 8, 9, 12, 16, 17, 33, 64, 128, 248, 249, 250, 255, 256, 257, 300, 512]
    return _run("bits", tier, seed, caps, script, ["BA_cap1", "BA_cap7", "BA_cap8", "BA_cap9", "AR_cap3"] + ([] if q else ["BA_cap12"]), None)


def extra_c13(tier, seed):
    q = tier == "quick"

    def script(cap, rng, tier_):
        text, n = bs_script(cap, rng, 60 if q else 800, True)
        bw, nb = bw_script(rng, 100 if q else 3000)
        return text + bw, {"field_sequences": n, "bitwidth_queries": nb}
    caps = [1, 7, 8, 9, 16, 33, 255] if q else [1, 2, 7, 8, 9, 16, 31, 32, 33, 64, 128, 255]
    return _run("stream", tier, seed, caps, script, ["BS_mixed"] + ([] if q else ["BS_small"]), "BitStream.tla")
