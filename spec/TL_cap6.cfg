CONSTANTS
  CapT = 6
  Vals <- Vals2
INIT Init
NEXT Next
VIEW StateView
CHECK_DEADLOCK FALSE
INVARIANT InvRefines
INVARIANT InvFreeList
INVARIANT InvCapacityExact
INVARIANT InvAppendAtRoom
INVARIANT InvSweep
