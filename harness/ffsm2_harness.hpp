// FFSM2 verification harness: a real FSM::Instance whose every callback forwards to a scripted /
// random driver, with an ndjson recorder.  All observation goes through the public API.
//
// Profile macros (all optional):
//   VH_N (states, 1..255)  VH_L (substitution limit)  VH_CAP (task capacity, 0 = library default = N)
//   VH_HEAD (1 = Root<Head,...>, 0 = PeerRoot<...>)    VH_MANUAL (1 = manual activation)
//   VH_PAY  (0 void, 1 1-byte, 2 3-byte, 3 int32, 4 {double,uint64}, 5 32-byte alignas(16))
//   VH_CTX  (0 empty, 1 value, 2 reference, 3 pointer)
//   VH_INJ_ROOT / VH_INJ_S0 / VH_INJ_S1 / VH_INJ_LAST  (number of injections 0..3)
//   VH_DEFMODE (0 = every class defines every callback, 1..3 = sparse patterns, see vh_defmask)
//   VH_DEV  (1 = include <ffsm2/machine_dev.hpp>, else <ffsm2/machine.hpp>)
//   FFSM2_ENABLE_* feature switches as documented by the library.
#pragma once

#ifndef VH_N
#define VH_N 3
#endif
#ifndef VH_L
#define VH_L 2
#endif
#ifndef VH_CAP
#define VH_CAP 0
#endif
#ifndef VH_HEAD
#define VH_HEAD 1
#endif
#ifndef VH_MANUAL
#define VH_MANUAL 0
#endif
#ifndef VH_PAY
#define VH_PAY 0
#endif
#ifndef VH_CTX
#define VH_CTX 0
#endif
#ifndef VH_INJ_ROOT
#define VH_INJ_ROOT 0
#endif
#ifndef VH_INJ_S0
#define VH_INJ_S0 0
#endif
#ifndef VH_INJ_S1
#define VH_INJ_S1 0
#endif
#ifndef VH_INJ_LAST
#define VH_INJ_LAST 0
#endif
#ifndef VH_DEFMODE
#define VH_DEFMODE 0
#endif
#ifndef VH_CONSTCB
#define VH_CONSTCB 0	// 1: guards, lifecycle, update-family and plan callbacks are declared const (the react family cannot be)
#endif
#ifndef VH_VIRT
#define VH_VIRT 0		// 1: the callbacks of the injected classes are declared virtual (the state classes override them)
#endif
#ifndef VH_COMPAT
#define VH_COMPAT 0		// 1: only the basic API forms (fallback build used when a rarely used form does not compile / link: the
#endif					//    failure itself is reported, and the rest of the library can still be checked)

#if defined(VH_DEV) && VH_DEV
#include <ffsm2/machine_dev.hpp>
#else
#include <ffsm2/machine.hpp>
#endif

#include <cstdio>
#include <cstdlib>
#include <cstring>
#include <cstdint>
#include <string>
#include <vector>
#include <map>
#include <new>
#include <csignal>
#include <unistd.h>
#include <fcntl.h>

#if defined(FFSM2_ENABLE_PLANS) || defined(FFSM2_ENABLE_ALL)
#define VH_PLANS 1
#else
#define VH_PLANS 0
#endif
#if defined(FFSM2_ENABLE_SERIALIZATION) || defined(FFSM2_ENABLE_ALL)
#define VH_SERIAL 1
#else
#define VH_SERIAL 0
#endif
#if defined(FFSM2_ENABLE_TRANSITION_HISTORY) || defined(FFSM2_ENABLE_ALL)
#define VH_HISTORY 1
#else
#define VH_HISTORY 0
#endif
#if defined(FFSM2_ENABLE_LOG_INTERFACE) || defined(FFSM2_ENABLE_VERBOSE_DEBUG_LOG)
#define VH_LOG 1
#else
#define VH_LOG 0
#endif
#if defined(FFSM2_ENABLE_VERBOSE_DEBUG_LOG)
#define VH_VERBOSE 1
#else
#define VH_VERBOSE 0
#endif

namespace vh {

static const int NONE = 255;

//------------------------------------------------------------------------------ payload types

struct P1  { uint8_t b[1]; };
struct P3  { uint8_t b[3]; };
struct P4  { int32_t v; };
struct P16 { double d; uint64_t u; };
struct alignas(16) PA { uint8_t b[32]; };
struct P256 { uint8_t b[256]; };			// sizes that do not fit an 8-bit counter
struct P300 { uint32_t w[75]; };

#if   VH_PAY == 1
using Pay = P1;
#elif VH_PAY == 2
using Pay = P3;
#elif VH_PAY == 3
using Pay = P4;
#elif VH_PAY == 4
using Pay = P16;
#elif VH_PAY == 5
using Pay = PA;
#elif VH_PAY == 6
using Pay = P256;
#elif VH_PAY == 7
using Pay = P300;
#endif

#if VH_PAY
static inline uint8_t tokByte(int tok, size_t i) { return static_cast<uint8_t>((tok * 37 + static_cast<int>(i) * 11 + static_cast<int>(i >> 8) * 5 + 1) & 0xFF); }
static inline Pay mkPay(int tok) {
	Pay p;
	uint8_t bytes[sizeof(Pay)];
	for (size_t i = 0; i < sizeof(Pay); ++i) bytes[i] = tokByte(tok, i);
	std::memcpy(&p, bytes, sizeof(Pay));
	return p;
}
static inline int tokOf(const Pay* p) {
	if (!p) return 0;
	uint8_t bytes[sizeof(Pay)];
	std::memcpy(bytes, p, sizeof(Pay));
	for (int tok = 1; tok <= 9; ++tok) {
		bool ok = true;
		for (size_t i = 0; i < sizeof(Pay); ++i) if (bytes[i] != tokByte(tok, i)) { ok = false; break; }
		if (ok) return tok;
	}
	return 999;
}
#endif

//------------------------------------------------------------------------------ context

struct Ctx { int tag; };

// the configuration is built by applying the modifiers one after the other; they must commute, so the order is a profile parameter
template <typename G> struct AddCtx {
#if   VH_CTX == 0
	using Type = G;
#elif VH_CTX == 1
	using Type = typename G::template ContextT<Ctx>;
#elif VH_CTX == 2
	using Type = typename G::template ContextT<Ctx&>;
#elif VH_CTX == 3
	using Type = typename G::template ContextT<Ctx*>;
#endif
};
template <typename G> struct AddMan {
#if VH_MANUAL
	using Type = typename G::ManualActivation;
#else
	using Type = G;
#endif
};
template <typename G> struct AddLim { using Type = typename G::template SubstitutionLimitN<VH_L>; };
template <typename G> struct AddCap {
#if VH_PLANS && VH_CAP
	using Type = typename G::template TaskCapacityN<VH_CAP>;
#else
	using Type = G;
#endif
};
template <typename G> struct AddPay {
#if VH_PAY
	using Type = typename G::template PayloadT<Pay>;
#else
	using Type = G;
#endif
};

#ifndef VH_CFGORDER
#define VH_CFGORDER 0
#endif
using Cfg0 = ffsm2::Config;
#if   VH_CFGORDER == 0		// context, activation, limit, capacity, payload
using Cfg = AddPay<AddCap<AddLim<AddMan<AddCtx<Cfg0>::Type>::Type>::Type>::Type>::Type;
#elif VH_CFGORDER == 1		// context, limit, capacity, payload, activation
using Cfg = AddMan<AddPay<AddCap<AddLim<AddCtx<Cfg0>::Type>::Type>::Type>::Type>::Type;
#elif VH_CFGORDER == 2		// limit, capacity, payload, activation, context
using Cfg = AddCtx<AddMan<AddPay<AddCap<AddLim<Cfg0>::Type>::Type>::Type>::Type>::Type;
#else						// payload, capacity, limit, context, activation
using Cfg = AddMan<AddCtx<AddLim<AddCap<AddPay<Cfg0>::Type>::Type>::Type>::Type>::Type;
#endif

using M = ffsm2::MachineT<Cfg>;

//------------------------------------------------------------------------------ state list

template <int I> struct St;
template <int D> struct RootT;
using Root = RootT<0>;

template <int... Is> struct ISeq {};
template <int N, int... Is> struct MkSeq : MkSeq<N - 1, N - 1, Is...> {};
template <int... Is> struct MkSeq<0, Is...> { using Type = ISeq<Is...>; };

template <typename> struct MkFSM;
template <int... Is> struct MkFSM<ISeq<Is...>> {
#if VH_HEAD
	using Type = M::Root<Root, St<Is>...>;
#else
	using Type = M::PeerRoot<St<Is>...>;
#endif
};

using FSM = MkFSM<MkSeq<VH_N>::Type>::Type;

constexpr int injCount(int i) {
	return i == NONE ? VH_INJ_ROOT : i == 0 ? VH_INJ_S0 : i == 1 ? VH_INJ_S1 : i == VH_N - 1 ? VH_INJ_LAST : 0;
}

// which callbacks a class defines itself (bit = ffsm2::Method value); used for non-verbose logging (C16)
constexpr unsigned ALLMASK = 0x7FFEu;
constexpr unsigned vh_defmask(int i) {
	return VH_DEFMODE == 0 ? ALLMASK :
		   VH_DEFMODE == 1 ? (i == NONE ? 0x4812u /*entryGuard,preUpdate,exitGuard,planFailed*/ :
							  i % 3 == 0 ? ALLMASK : i % 3 == 1 ? 0x0824u /*enter,update,exitGuard*/ : 0u) :
		   VH_DEFMODE == 2 ? (i == NONE ? 0x2000u /*planSucceeded*/ :
							  i % 2 == 0 ? 0x1558u /*reenter,preUpdate,postUpdate,react,postReact,exit*/ : 0x2AA6u & ALLMASK) :
							 (i == NONE ? 0u : (0x0F0Fu << (i % 4)) & ALLMASK);
}

//------------------------------------------------------------------------------ recorder

struct Rec {
	std::string buf;
	int fd = 1;
	void flush() {
		size_t off = 0;
		while (off < buf.size()) {
			ssize_t n = ::write(fd, buf.data() + off, buf.size() - off);
			if (n <= 0) break;
			off += static_cast<size_t>(n);
		}
		buf.clear();
	}
	void s(const char* str) { buf += str; }
	void i(long v) { char t[24]; std::snprintf(t, sizeof t, "%ld", v); buf += t; }
	void kv(const char* k, long v, bool comma = true) { buf += '"'; buf += k; buf += "\":"; i(v); if (comma) buf += ','; }
	void ks(const char* k, const char* v, bool comma = true) { buf += '"'; buf += k; buf += "\":\""; buf += v; buf += '"'; if (comma) buf += ','; }
	void tr(const char* k, int o, int d, int p, bool comma = true) {
		buf += '"'; buf += k; buf += "\":["; i(o); buf += ','; i(d); buf += ','; i(p); buf += ']'; if (comma) buf += ',';
	}
};
static Rec g_rec;

//------------------------------------------------------------------------------ acts / decisions

struct Act { char k[3]; int a, b, p; };		// k: T W X S F PC PW PX PR
using Acts = std::vector<Act>;

struct LogRec { char k; int s, a; };		// k: m(ethod) t(ransition) s(tatus) c(ancel) p(lan status)
static std::vector<LogRec> g_pendLog;		// log records since the last event line

static void emitLogs(const char* key, std::vector<LogRec>& v, bool comma = true) {
	g_rec.s("\""); g_rec.s(key); g_rec.s("\":[");
	for (size_t n = 0; n < v.size(); ++n) {
		if (n) g_rec.s(",");
		char t[2] = { v[n].k, 0 };
		g_rec.s("[\""); g_rec.s(t); g_rec.s("\","); g_rec.i(v[n].s); g_rec.s(","); g_rec.i(v[n].a); g_rec.s("]");
	}
	g_rec.s("]"); if (comma) g_rec.s(",");
	v.clear();
}

struct Rng {
	uint64_t s;
	explicit Rng(uint64_t seed = 1) : s(seed * 0x9E3779B97F4A7C15ull + 0x1234567ull) {}
	uint32_t next() { s ^= s << 13; s ^= s >> 7; s ^= s << 17; return static_cast<uint32_t>(s >> 11); }
	int below(int n) { return n <= 0 ? 0 : static_cast<int>(next() % static_cast<uint32_t>(n)); }
	bool chance(int pct) { return below(100) < pct; }
};

struct Key { int m, s, j; bool operator<(const Key& o) const { return m != o.m ? m < o.m : s != o.s ? s < o.s : j < o.j; } };

enum ProviderMode { PM_SCRIPT, PM_RANDOM, PM_REPLAY, PM_HOSTILE, PM_NONE };

struct Provider {
	ProviderMode mode = PM_NONE;
	std::map<Key, std::vector<Acts>> keyed;		// PM_SCRIPT: per key, list per occurrence
	std::map<Key, int> seen;
	std::vector<Acts> recorded;					// PM_RANDOM: decisions drawn in this op, in delivery order
	std::vector<Acts> replay;					// PM_REPLAY: decisions to replay positionally
	size_t replayPos = 0;
	Rng* rng = nullptr;
	int actPct = 35;							// PM_RANDOM: chance that a delivery acts at all
	unsigned kinds = 0xFFFFu;					// PM_RANDOM: allowed act kinds (bit mask, see below)
	int deliveries = 0, budget = 1000000;

	void beginOp() { keyed.clear(); seen.clear(); recorded.clear(); replayPos = 0; deliveries = 0; }
};
static Provider g_prov;

// act kind bits for random generation
enum { AK_T = 1, AK_W = 2, AK_X = 4, AK_S = 8, AK_F = 16, AK_PC = 32, AK_PW = 64, AK_PX = 128, AK_PR = 256, AK_SOTHER = 512 };

static Act mkAct(const char* k, int a = 0, int b = 0, int p = 0) { Act x; std::strncpy(x.k, k, 3); x.k[2] = 0; x.a = a; x.b = b; x.p = p; return x; }

// ctrl: 0 const, 1 plan, 2 full, 3 guard
static Acts randomActs(Rng& r, int ctrl, int self, int planLen, unsigned kinds, int actPct) {
	Acts out;
	if (ctrl == 0 || !r.chance(actPct)) return out;
	const int n = r.chance(25) ? 2 : 1;
	for (int q = 0; q < n; ++q) {
		std::vector<Act> cand;
		if (ctrl >= 2) {
			if (kinds & AK_T) { cand.push_back(mkAct("T", r.below(VH_N))); cand.push_back(mkAct("T", r.below(VH_N))); }
#if VH_PAY
			if (kinds & AK_W) cand.push_back(mkAct("W", r.below(VH_N), 0, 1 + r.below(3)));
#endif
#if VH_PLANS
			if ((kinds & AK_S) && self != NONE) { cand.push_back(mkAct("S", NONE)); cand.push_back(mkAct("S", NONE)); }
			if ((kinds & AK_F) && self != NONE) cand.push_back(mkAct("F", NONE));
			if (kinds & AK_SOTHER) { cand.push_back(mkAct("S", r.below(VH_N))); if (kinds & AK_F) cand.push_back(mkAct("F", r.below(VH_N))); }
#endif
			if (ctrl == 3 && (kinds & AK_X)) { cand.push_back(mkAct("X")); cand.push_back(mkAct("X")); }
		}
#if VH_PLANS
		if (ctrl >= 1) {
			if (kinds & AK_PC) cand.push_back(mkAct("PC", r.below(VH_N), r.below(VH_N)));
#if VH_PAY
			if (kinds & AK_PW) cand.push_back(mkAct("PW", r.below(VH_N), r.below(VH_N), 1 + r.below(3)));
#endif
			if ((kinds & AK_PX) && r.chance(30)) cand.push_back(mkAct("PX"));
			if ((kinds & AK_PR) && planLen > 0) cand.push_back(mkAct("PR", r.below(planLen)));
		}
#else
		(void) planLen;
#endif
		if (cand.empty()) break;
		out.push_back(cand[static_cast<size_t>(r.below(static_cast<int>(cand.size())))]);
	}
	return out;
}

//------------------------------------------------------------------------------ instances

static void* g_curFsm = nullptr;	// FSM::Instance whose API call is running
static int	 g_curId  = 0;
template <typename T> struct Dep { using Instance = FSM::Instance; };	// makes uses of FSM::Instance dependent (it is incomplete until St<>/RootT<> are defined)

#if VH_LOG
struct Logger : M::LoggerInterface {
	using Base = M::LoggerInterface;
	void recordMethod(const Context&, const ffsm2::StateID origin, const ffsm2::Method method) override {
		LogRec r = { 'm', origin, static_cast<int>(method) }; g_pendLog.push_back(r);
	}
	void recordTransition(const Context&, const ffsm2::StateID origin, const ffsm2::StateID target) override {
		LogRec r = { 't', origin, target }; g_pendLog.push_back(r);
	}
#if VH_PLANS
	void recordTaskStatus(const Context&, const ffsm2::StateID origin, const ffsm2::StatusEvent event) override {
		LogRec r = { 's', origin, static_cast<int>(event) }; g_pendLog.push_back(r);
	}
	void recordPlanStatus(const Context&, const ffsm2::StatusEvent event) override {
		LogRec r = { 'p', NONE, static_cast<int>(event) }; g_pendLog.push_back(r);
	}
#endif
	void recordCancelledPending(const Context&, const ffsm2::StateID origin) override {
		LogRec r = { 'c', origin, 0 }; g_pendLog.push_back(r);
	}
};
#endif


//------------------------------------------------------------------------------ API variants
// Every id-taking operation of the library also exists as a template taking the state type.  Half of the
// invocations go through the typed form; the specification does not distinguish them, so any difference shows
// up as a conformance mismatch / monitor finding.  The choice is a function of the instance's own history (number
// of operations it has executed, invocations within the operation), so instances that are given the same calls
// and decisions (lanes, copies) also use the same variants: what the user code does is part of the history.

#ifndef VH_TYPED_MAX
#define VH_TYPED_MAX 9
#endif
static unsigned g_apiTick = 0, g_aliasTick = 0;
static inline bool typedNow() { return !VH_COMPAT && VH_N <= VH_TYPED_MAX && (((++g_apiTick * 2654435761u) >> 13) & 1u) != 0; }

template <int I, int E> struct Disp {
	template <typename F> static void go(int id, F& f) { if (id == I) f.template call<St<I>>(); else Disp<I + 1, E>::go(id, f); }
};
template <int E> struct Disp<E, E> { template <typename F> static void go(int, F&) {} };
template <typename F> static void typed(int id, F& f) { Disp<0, (VH_N <= VH_TYPED_MAX && !VH_COMPAT ? VH_N : 0)>::go(id, f); }

template <typename X> struct F_changeTo			 { X& x; template <typename T> void call() { x.template changeTo<T>(); } };
template <typename X> struct F_immediateChangeTo { X& x; template <typename T> void call() { x.template immediateChangeTo<T>(); } };
template <typename X> struct F_isActive			 { const X& x; bool r; template <typename T> void call() { r = x.template isActive<T>(); } };
template <typename X> struct F_stateId			 { int r; template <typename T> void call() { r = X::template stateId<T>(); } };
#if VH_PLANS
template <typename X> struct F_succeed			 { X& x; template <typename T> void call() { x.template succeed<T>(); } };
template <typename X> struct F_fail				 { X& x; template <typename T> void call() { x.template fail<T>(); } };
template <typename X> struct F_planChange1		 { X& x; int d; bool r; template <typename T> void call() { r = x.template change<T>(static_cast<ffsm2::StateID>(d)); } };
template <typename X, typename TO> struct F_planChange2b { X& x; bool r; template <typename T> void call() { r = x.template change<TO, T>(); } };
template <typename X> struct F_planChange2		 { X& x; int d; bool r; template <typename T> void call() { F_planChange2b<X, T> g = { x, false }; typed(d, g); r = g.r; } };
#endif
#if VH_PAY
template <typename X> struct F_changeWith		   { X& x; const Pay& p; template <typename T> void call() { x.template changeWith<T>(p); } };
template <typename X> struct F_immediateChangeWith { X& x; const Pay& p; template <typename T> void call() { x.template immediateChangeWith<T>(p); } };
#if VH_PLANS
template <typename X> struct F_planChangeWith1	   { X& x; int d; const Pay& p; bool r; template <typename T> void call() { r = x.template changeWith<T>(static_cast<ffsm2::StateID>(d), p); } };
template <typename X, typename TO> struct F_planChangeWith2b { X& x; const Pay& p; bool r; template <typename T> void call() { r = x.template changeWith<TO, T>(p); } };
template <typename X> struct F_planChangeWith2	   { X& x; int d; const Pay& p; bool r; template <typename T> void call() { F_planChangeWith2b<X, T> g = { x, p, false }; typed(d, g); r = g.r; } };
#endif
#endif

template <typename X>
static bool isActiveVar(const X& x, int id, bool useTyped) {
	if (useTyped) { F_isActive<X> f = { x, false }; typed(id, f); return f.r; }
	return x.isActive(static_cast<ffsm2::StateID>(id));
}

//------------------------------------------------------------------------------ views

template <typename TTransition>
static void emitTr(const char* k, const TTransition& t, bool comma = true) {
	if (!t) { g_rec.tr(k, NONE, NONE, 0, comma); return; }
#if VH_PAY
	g_rec.tr(k, t.origin, t.destination, tokOf(t.payload()), comma);
#else
	g_rec.tr(k, t.origin, t.destination, 0, comma);
#endif
}

#if VH_PLANS
template <typename TPlan>
static int emitPlan(const char* k, TPlan plan, bool comma = true) {
	int n = 0;
	g_rec.s("\""); g_rec.s(k); g_rec.s("\":[");
	for (auto it = plan.begin(); it; ++it) {
		if (n++) g_rec.s(",");
#if VH_PAY
		g_rec.s("["); g_rec.i(it->origin); g_rec.s(","); g_rec.i(it->destination); g_rec.s(","); g_rec.i(tokOf(it->payload())); g_rec.s("]");
#else
		g_rec.s("["); g_rec.i(it->origin); g_rec.s(","); g_rec.i(it->destination); g_rec.s(",0]");
#endif
		if (n > 300) break;		// corrupted list guard
	}
	g_rec.s("]"); if (comma) g_rec.s(",");
	return n;
}
#endif

#if VH_PLANS
// the plan through its other forms: the mutable plan's iterator, first(), last() and emptiness test (mutable and const)
// must all describe the sequence the const iterator yields.  1 = consistent.
template <typename TPlan, typename TCPlan>
static int planForms(TPlan plan, TCPlan cplan) {
#if VH_COMPAT
	(void) plan; (void) cplan; return 1;
#else
	int n = 0, m = 0;
	int co[3] = { NONE, NONE, 0 }, cl[3] = { NONE, NONE, 0 };
	bool same = true;
	const TPlan& kplan = plan;			// the mutable plan seen through a const reference: PlanT::CIterator, const first() / last()
	auto it = plan.begin();
	auto ki = kplan.begin();
	for (auto ci = cplan.begin(); ci; ++ci, ++n) {
		if (n > 300) return 0;
		const int t[3] = { ci->origin, ci->destination,
#if VH_PAY
			tokOf(ci->payload())
#else
			0
#endif
		};
		if (n == 0) { co[0] = t[0]; co[1] = t[1]; co[2] = t[2]; }
		cl[0] = t[0]; cl[1] = t[1]; cl[2] = t[2];
		if (!it || !ki) { same = false; continue; }
		const auto& task = *it;
		same = same && task.origin == t[0] && task.destination == t[1] && ki->origin == t[0] && ki->destination == t[1];
		++ki;
#if VH_PAY
		same = same && tokOf(task.payload()) == t[2];
#endif
		++it; ++m;
	}
	if (it || ki) same = false;
	const bool ne = n > 0;
	if (static_cast<bool>(plan) != ne || static_cast<bool>(cplan) != ne || static_cast<bool>(kplan) != ne) same = false;
	if (ne) {
		const auto& f = plan.first(); const auto& l = plan.last(); const auto& cf = cplan.first(); const auto& cla = cplan.last();
		const auto& kf = kplan.first(); const auto& kl = kplan.last();
		same = same && kf.origin == co[0] && kf.destination == co[1] && kl.origin == cl[0] && kl.destination == cl[1];
		same = same && f.origin == co[0] && f.destination == co[1] && cf.origin == co[0] && cf.destination == co[1]
					&& l.origin == cl[0] && l.destination == cl[1] && cla.origin == cl[0] && cla.destination == cl[1];
#if VH_PAY
		same = same && tokOf(f.payload()) == co[2] && tokOf(cf.payload()) == co[2] && tokOf(l.payload()) == cl[2] && tokOf(cla.payload()) == cl[2];
#endif
	}
	return same ? 1 : 0;
#endif
}
#endif

template <typename TControl>
static void emitCAct(TControl& control) {
	g_rec.s("\"cact\":[");
	bool first = true;
	const bool ty = typedNow();
	for (int i = 0; i < VH_N; ++i)
		if (isActiveVar(control, i, ty)) { if (!first) g_rec.s(","); g_rec.i(i); first = false; }
	g_rec.s("],");
}

template <typename TInstance>
static void emitMAct(TInstance& m) {
	g_rec.kv("mact", m.activeStateId());
	g_rec.s("\"mia\":[");
	bool first = true;
	const bool ty = typedNow();
	for (int i = 0; i < VH_N; ++i)
		if (isActiveVar(m, i, ty)) { if (!first) g_rec.s(","); g_rec.i(i); first = false; }
	g_rec.s("],");
}

// helpers selected by control kind ---------------------------------------------

template <int K> struct Views;

template <> struct Views<0> {	// ConstControl (its plan() accessor does not compile in the library: CPlanT does not befriend ConstControlT)
	template <typename C> static void cur(C&)  { g_rec.tr("cur", NONE, NONE, 0); }
	template <typename C> static void pend(C&) { g_rec.tr("pend", NONE, NONE, 0); }
	template <typename C> static int  plan(C&) { g_rec.s("\"pfl\":1,\"plan\":[],"); return -1; }
};
template <> struct Views<1> {	// PlanControl
	template <typename C> static void cur(C& c)  { emitTr("cur", c.currentTransition()); }
	template <typename C> static void pend(C&)   { g_rec.tr("pend", NONE, NONE, 0); }
	template <typename C> static int  plan(C& c) {
#if VH_PLANS
		const C& cc = c;
		g_rec.kv("pfl", planForms(c.plan(), cc.plan()));
		return emitPlan("plan", cc.plan());
#else
		(void) c; g_rec.s("\"pfl\":1,\"plan\":[],"); return 0;
#endif
	}
};
template <> struct Views<2> : Views<1> {};
template <> struct Views<3> : Views<1> {
	template <typename C> static void pend(C& c) { emitTr("pend", c.pendingTransition()); }
};

// performing acts ---------------------------------------------------------------

template <int K> struct Perform {
	template <typename C> static int act(C&, const Act&, int) { return -1; }
};

#if VH_PLANS
// plan.change(o, d) / change<O>(d) / change<O, D>()
template <typename P>
static bool planChangeVar(P& plan, int o, int d) {
	if (typedNow()) {
		if (g_apiTick & 4u) { F_planChange2<P> f = { plan, d, false }; typed(o, f); return f.r; }
		F_planChange1<P> f = { plan, d, false }; typed(o, f); return f.r;
	}
	return plan.change(static_cast<ffsm2::StateID>(o), static_cast<ffsm2::StateID>(d));
}
#if VH_PAY
template <typename P>
static bool planChangeWithVar(P& plan, int o, int d, const Pay& pay) {
	if (typedNow()) {
		if (g_apiTick & 4u) { F_planChangeWith2<P> f = { plan, d, pay, false }; typed(o, f); return f.r; }
		F_planChangeWith1<P> f = { plan, d, pay, false }; typed(o, f); return f.r;
	}
	return plan.changeWith(static_cast<ffsm2::StateID>(o), static_cast<ffsm2::StateID>(d), pay);
}
#endif

template <typename C>
static int planAct(C& c, const Act& a) {
	auto plan = c.plan();
	if (!std::strcmp(a.k, "PC")) return planChangeVar(plan, a.a, a.b) ? 1 : 0;
#if VH_PAY
	if (!std::strcmp(a.k, "PW")) return planChangeWithVar(plan, a.a, a.b, mkPay(a.p)) ? 1 : 0;
#endif
	if (!std::strcmp(a.k, "PX")) { plan.clear(); return 0; }
	if (!std::strcmp(a.k, "PR")) {
		int n = 0;
		for (auto it = plan.begin(); it; ++it, ++n)
			if (n == a.a) { it.remove(); return 1; }
		return 0;
	}
	return -1;
}
#endif

template <> struct Perform<1> {
	template <typename C> static int act(C& c, const Act& a, int) {
#if VH_PLANS
		return planAct(c, a);
#else
		(void) c; (void) a; return -1;
#endif
	}
};
template <> struct Perform<2> {
	template <typename C> static int act(C& c, const Act& a, int self) {
		if (!std::strcmp(a.k, "T")) {
			if (typedNow()) { F_changeTo<C> f = { c }; typed(a.a, f); } else c.changeTo(static_cast<ffsm2::StateID>(a.a));
			return 0; }
#if VH_PAY
		if (!std::strcmp(a.k, "W")) {
			const Pay fresh = mkPay(a.p);
			// when the waiting request already carries this very token, every other time the user code forwards that request's own
			// payload object (control.changeWith(d, *control.request().payload())): the argument then aliases the storage being replaced
			const Pay* src = &fresh;
			if (c.request() && c.request().payload() && tokOf(c.request().payload()) == a.p && (((++g_aliasTick) ^ g_apiTick) & 1u)) src = c.request().payload();
			const Pay& pay = *src;
			if (typedNow()) { F_changeWith<C> f = { c, pay }; typed(a.a, f); } else c.changeWith(static_cast<ffsm2::StateID>(a.a), pay);
			return 0; }
#endif
#if VH_PLANS
		if (!std::strcmp(a.k, "S")) {
			if (a.a == NONE) { if (self == NONE) return -1; c.succeed(); }
			else if (typedNow()) { F_succeed<C> f = { c }; typed(a.a, f); } else c.succeed(static_cast<ffsm2::StateID>(a.a));
			return 0; }
		if (!std::strcmp(a.k, "F")) {
			if (a.a == NONE) { if (self == NONE) return -1; c.fail(); }
			else if (typedNow()) { F_fail<C> f = { c }; typed(a.a, f); } else c.fail(static_cast<ffsm2::StateID>(a.a));
			return 0; }
		return planAct(c, a);
#else
		(void) self; return -1;
#endif
	}
};
template <> struct Perform<3> {
	template <typename C> static int act(C& c, const Act& a, int self) {
		if (!std::strcmp(a.k, "X")) { c.cancelPendingTransition(); return 0; }
		return Perform<2>::act(c, a, self);
	}
};

//------------------------------------------------------------------------------ kept plan views
// A read-only plan view obtained BEFORE the plan is edited and read again afterwards must still describe the live plan
// (a view is a handle, not a snapshot).  PlanKeeper holds such a view across the acts of a callback / across an API operation.

template <bool On, typename TOwner> struct PlanKeeper {
	explicit PlanKeeper(const TOwner&) {}
	template <typename TMutableOwner> int check(TMutableOwner&) { return 1; }
};
#if VH_PLANS && !VH_COMPAT
template <typename TOwner> struct PlanKeeper<true, TOwner> {
	using CPlanView = decltype(static_cast<const TOwner*>(nullptr)->plan());
	CPlanView view;
	explicit PlanKeeper(const TOwner& owner) : view(owner.plan()) {}
	template <typename TMutableOwner> int check(TMutableOwner& owner) { return planForms(owner.plan(), view); }
};
#endif

//------------------------------------------------------------------------------ delivery

// m: ffsm2::Method value; s: class index (NONE for root); j: 0 own, 1.. injection; K: control kind
template <int K, typename TControl>
static void deliver(int m, int s, int j, TControl& control, int selfOk, int evOk, unsigned visits) {
	Provider& pv = g_prov;
	++pv.deliveries;

	using TInstance = typename Dep<TControl>::Instance;
	TInstance& machine = *static_cast<TInstance*>(g_curFsm);

	g_rec.s("{\"e\":\"cb\","); g_rec.kv("i", g_curId); g_rec.kv("m", m); g_rec.kv("s", s); g_rec.kv("j", j);
	emitLogs("pre", g_pendLog);
	g_rec.kv("sid", control.stateId());
	emitCAct(control);
	emitMAct(machine);
#if VH_COMPAT
	g_rec.kv("ctx", &control.context() == &machine.context() ? 1 : 0);
#else
	g_rec.kv("ctx", (&control.context() == &machine.context() && &control._() == &machine.context()) ? 1 : 0);
#endif
	g_rec.kv("self", selfOk); g_rec.kv("ev", evOk); g_rec.kv("uv", visits);
	emitTr("req", control.request());
#if VH_HISTORY && VH_COMPAT
	emitTr("cprev", machine.previousTransition());
#elif VH_HISTORY
	emitTr("cprev", control.previousTransitions());		// the history as the callback sees it
#else
	g_rec.tr("cprev", NONE, NONE, 0);
#endif
	Views<K>::cur(control);
	Views<K>::pend(control);
	const int planLen = Views<K>::plan(control);

	// decisions
	Acts acts;
	if (pv.deliveries <= pv.budget) {
		switch (pv.mode) {
		case PM_SCRIPT: {
			Key key = { m, s, j };
			auto it = pv.keyed.find(key);
			if (it != pv.keyed.end()) {
				const int occ = pv.seen[key]++;
				if (occ < static_cast<int>(it->second.size())) acts = it->second[static_cast<size_t>(occ)];
			}
			break; }
		case PM_RANDOM:
			acts = randomActs(*pv.rng, K, s, planLen, pv.kinds, pv.actPct);
			pv.recorded.push_back(acts);
			break;
		case PM_REPLAY:
			if (pv.replayPos < pv.replay.size()) acts = pv.replay[pv.replayPos];
			++pv.replayPos;
			break;
		case PM_HOSTILE:
			if (K == 3) { acts.push_back(mkAct("X")); acts.push_back(mkAct("T", (s == NONE ? 0 : s + 1) % VH_N)); }
			else if (K == 2) acts.push_back(mkAct("T", (s == NONE ? 0 : s + 1) % VH_N));
			break;
		case PM_NONE: break;
		}
	}

	PlanKeeper<(K >= 1), TControl> keptPlan(control);		// a const view of the plan taken before the acts
	g_rec.s("\"acts\":[");
	bool first = true;
	for (size_t n = 0; n < acts.size(); ++n) {
		const Act& a = acts[n];
		const int r = Perform<K>::act(control, a, s);
		if (r < 0) { continue; }	// not applicable for this control / build: skipped, not recorded
		if (!first) { g_rec.s(","); }
		first = false;
		g_rec.s("{"); g_rec.ks("k", a.k); g_rec.kv("a", a.a); g_rec.kv("b", a.b); g_rec.kv("p", a.p); g_rec.kv("r", r);
		emitLogs("lg", g_pendLog, false);
		g_rec.s("}");
	}
	g_rec.s("],"); g_rec.kv("pfl2", keptPlan.check(control)); g_rec.kv("mact2", machine.activeStateId(), false); g_rec.s("}\n");
}


//------------------------------------------------------------------------------ callback layers

// two unrelated event types: react() / query() are templates over the event type, the scripts alternate between them
struct Ev  { int v; };
struct Ev2 { double pad; int v; };
static const void* g_evPtr = nullptr;
static int g_evType = 0;

template <typename T>
static int selfOk(const T* self) {
	using TInstance = typename Dep<T>::Instance;
	return static_cast<const void*>(self) == static_cast<const void*>(&static_cast<TInstance*>(g_curFsm)->template access<T>()) ? 1 : 0;
}
static int evOk(const Ev&  e) { return (&e == g_evPtr && g_evType == 1) ? 1 : 0; }
static int evOk(const Ev2& e) { return (&e == g_evPtr && g_evType == 2) ? 1 : 0; }

// user state: every class of the machine (head, states, injections) carries a counter of the callbacks delivered to that very
// object; it is part of what a copy-constructed machine must carry over
template <typename TOwner> struct Visits { mutable unsigned visits = 0x5A5A5A00u; };		// (bits set in every byte: stray writes into user state show)
#if VH_VIRT
#define VH_VIRTUAL virtual
#define VH_NOEXCEPT noexcept
#else
#define VH_VIRTUAL
#define VH_NOEXCEPT
#endif

#define VH_LAYER(NAME, BIT, KIND, SIG, EVOK, CONSTQ)																		\
	template <typename B, typename T, int SI, int JI, bool On> struct L_##NAME : B {										\
		VH_VIRTUAL void NAME SIG CONSTQ VH_NOEXCEPT {																		\
			const T* const self = static_cast<const T*>(this);																\
			deliver<KIND>(BIT, SI, JI, c, selfOk(self), EVOK, ++self->Visits<T>::visits); }									\
	};																														\
	template <typename B, typename T, int SI, int JI> struct L_##NAME<B, T, SI, JI, false> : B {};

// event callbacks: one overload per event type
#define VH_LAYER_EV(NAME, BIT, KIND, EVQ, CTRL, CONSTQ)																		\
	template <typename B, typename T, int SI, int JI, bool On> struct L_##NAME : B {										\
		VH_VIRTUAL void NAME (EVQ Ev& e, typename B::CTRL& c) CONSTQ VH_NOEXCEPT {											\
			const T* const self = static_cast<const T*>(this);																\
			deliver<KIND>(BIT, SI, JI, c, selfOk(self), evOk(e), ++self->Visits<T>::visits); }								\
		VH_VIRTUAL void NAME (EVQ Ev2& e, typename B::CTRL& c) CONSTQ VH_NOEXCEPT {											\
			const T* const self = static_cast<const T*>(this);																\
			deliver<KIND>(BIT, SI, JI, c, selfOk(self), evOk(e), ++self->Visits<T>::visits); }								\
	};																														\
	template <typename B, typename T, int SI, int JI> struct L_##NAME<B, T, SI, JI, false> : B {};

#if VH_CONSTCB
#define VH_CQ const
#else
#define VH_CQ
#endif
VH_LAYER(entryGuard,  1, 3, (typename B::GuardControl& c),				-1,		VH_CQ)
VH_LAYER(enter,		  2, 1, (typename B::PlanControl&  c),				-1,		VH_CQ)
VH_LAYER(reenter,	  3, 1, (typename B::PlanControl&  c),				-1,		VH_CQ)
VH_LAYER(preUpdate,	  4, 2, (typename B::FullControl&  c),				-1,		VH_CQ)
VH_LAYER(update,	  5, 2, (typename B::FullControl&  c),				-1,		VH_CQ)
VH_LAYER(postUpdate,  6, 2, (typename B::FullControl&  c),				-1,		VH_CQ)
VH_LAYER_EV(preReact,	  7, 2, const, FullControl,	 )
VH_LAYER_EV(react,		  8, 2, const, FullControl,	 )
VH_LAYER_EV(query,		  9, 0,		 , ConstControl, const)
VH_LAYER_EV(postReact,	 10, 2, const, FullControl,	 )
VH_LAYER(exitGuard,	 11, 3, (typename B::GuardControl& c),				-1,		VH_CQ)
VH_LAYER(exit,		 12, 1, (typename B::PlanControl&  c),				-1,		VH_CQ)
#if VH_PLANS
VH_LAYER(planSucceeded, 13, 2, (typename B::FullControl& c),			-1,		VH_CQ)
VH_LAYER(planFailed,	14, 2, (typename B::FullControl& c),			-1,		VH_CQ)
#endif

#define VH_ON(BIT) ((MASK >> BIT) & 1u) != 0

template <typename B, typename T, int SI, int JI, unsigned MASK>
struct Chain12 :
	L_exit<L_exitGuard<L_postReact<L_query<L_react<L_preReact<L_postUpdate<L_update<L_preUpdate<L_reenter<L_enter<L_entryGuard<
		B, T, SI, JI, VH_ON(1)>, T, SI, JI, VH_ON(2)>, T, SI, JI, VH_ON(3)>, T, SI, JI, VH_ON(4)>, T, SI, JI, VH_ON(5)>, T, SI, JI, VH_ON(6)>,
		T, SI, JI, VH_ON(7)>, T, SI, JI, VH_ON(8)>, T, SI, JI, VH_ON(9)>, T, SI, JI, VH_ON(10)>, T, SI, JI, VH_ON(11)>, T, SI, JI, VH_ON(12)>
{};

#if VH_PLANS
template <typename B, typename T, int SI, int JI, unsigned MASK>
struct Chain14 : L_planFailed<L_planSucceeded<Chain12<B, T, SI, JI, MASK>, T, SI, JI, VH_ON(13)>, T, SI, JI, VH_ON(14)> {};
#else
template <typename B, typename T, int SI, int JI, unsigned MASK>
struct Chain14 : Chain12<B, T, SI, JI, MASK> {};
#endif

// injections: Inj<SI, J> is the J-th injection of state SI (root: NONE)
template <int SI, int J>
struct Inj : Chain12<FSM::State, Inj<SI, J>, SI, J, ALLMASK>, Visits<Inj<SI, J>> {};

template <int SI, int K> struct StBase;
template <int SI> struct StBase<SI, 0> { using Type = FSM::State; };
template <int SI> struct StBase<SI, 1> { using Type = FSM::StateT<Inj<SI, 1>>; };
template <int SI> struct StBase<SI, 2> { using Type = FSM::StateT<Inj<SI, 1>, Inj<SI, 2>>; };
template <int SI> struct StBase<SI, 3> { using Type = FSM::StateT<Inj<SI, 1>, Inj<SI, 2>, Inj<SI, 3>>; };

constexpr unsigned classMask(int i) { return injCount(i) >= 2 ? ALLMASK : vh_defmask(i); }

template <int I>
struct St : Chain12<typename StBase<I, injCount(I)>::Type, St<I>, I, 0, classMask(I)>, Visits<St<I>> {};

template <int D>
struct RootT : Chain14<typename StBase<NONE, injCount(NONE)>::Type, RootT<D>, NONE, 0, classMask(NONE)>, Visits<RootT<D>> {};

//------------------------------------------------------------------------------ instances

struct Inst {
	int id = 0;
	alignas(16) unsigned char storage[sizeof(FSM::Instance) + 64];
	FSM::Instance* m = nullptr;
	Ctx ctx { 7 };
	bool loggerOn = false;
	unsigned opCount = 0, ctorCount = 0;	// history counters that select the API variants (copied along with the machine)
	unsigned char prevBytes[4] = { 0, 0, 0, 0 }; bool havePrev = false;		// the buffer of this instance's previous save()
#if VH_LOG
	Logger logger;
#endif
	FSM::Instance& fsm() { return *m; }
	bool active() const {
#if VH_MANUAL
		return m && m->isActive();
#else
		return m != nullptr;
#endif
	}
};

//------------------------------------------------------------------------------ API operations

static const int MAX_INST = 6;
static Inst* g_inst[MAX_INST] = { nullptr, nullptr, nullptr, nullptr, nullptr, nullptr };
static long g_serReg = -1;		// last saved buffer (bytes little endian), -1 none

static void emitObs(Inst& in) {
	FSM::Instance& m = in.fsm();
	g_rec.kv("act", m.activeStateId());
	g_rec.s("\"ia\":[");
	bool first = true;
	const bool ty = typedNow();
	for (int i = 0; i < VH_N; ++i)
		if (isActiveVar(m, i, ty)) { if (!first) g_rec.s(","); g_rec.i(i); first = false; }
	g_rec.s("],");
#if VH_MANUAL
	g_rec.kv("on", m.isActive() ? 1 : 0);
#else
	g_rec.kv("on", 1);
#endif
#if VH_HISTORY
	emitTr("prev", m.previousTransition());
#else
	g_rec.tr("prev", NONE, NONE, 0);
#endif
#if VH_PLANS
	{
		const FSM::Instance& cm = m;
		auto cp = cm.plan();
		const bool nonempty = static_cast<bool>(cp);
		g_rec.kv("pne", nonempty ? 1 : 0);
		if (nonempty) {
#if VH_PAY
			g_rec.tr("pfirst", cp.first().origin, cp.first().destination, tokOf(cp.first().payload()));
			g_rec.tr("plast",  cp.last ().origin, cp.last ().destination, tokOf(cp.last ().payload()));
#else
			g_rec.tr("pfirst", cp.first().origin, cp.first().destination, 0);
			g_rec.tr("plast",  cp.last ().origin, cp.last ().destination, 0);
#endif
		} else { g_rec.tr("pfirst", NONE, NONE, 0); g_rec.tr("plast", NONE, NONE, 0); }
		emitPlan("plan", cm.plan(), false);
	}
#else
	g_rec.kv("pne", 0); g_rec.tr("pfirst", NONE, NONE, 0); g_rec.tr("plast", NONE, NONE, 0); g_rec.s("\"plan\":[]");
#endif
}

static void emitCall(Inst& in, const char* op, long a, long b, long p) {
	g_rec.s("{\"e\":\"call\","); g_rec.kv("i", in.id); g_rec.ks("op", op); g_rec.kv("a", a); g_rec.kv("b", b); g_rec.kv("p", p, false); g_rec.s("}\n");
}
static void emitRet(Inst& in, const char* op, long r, bool destroyed = false, int keptOk = 1) {
	g_rec.s("{\"e\":\"ret\","); g_rec.kv("i", in.id); g_rec.ks("op", op); g_rec.kv("r", r); g_rec.kv("pfl", keptOk);
	emitLogs("pre", g_pendLog);
	if (destroyed) {
		g_rec.kv("act", NONE); g_rec.s("\"ia\":[],"); g_rec.kv("on", 0); g_rec.tr("prev", NONE, NONE, 0);
		g_rec.kv("pne", 0); g_rec.tr("pfirst", NONE, NONE, 0); g_rec.tr("plast", NONE, NONE, 0); g_rec.s("\"plan\":[]");
	} else
		emitObs(in);
	g_rec.s("}\n");
}

static void construct(Inst& in, int fill, uint64_t fillSeed) {
	// pre-fill the storage: the machine must not depend on it
	Rng r(fillSeed);
	for (size_t n = 0; n < sizeof in.storage; ++n)
		in.storage[n] = fill == 0 ? 0x00 : fill == 1 ? 0xFF : fill == 2 ? 0xAA : fill == 3 ? 0x01 : static_cast<unsigned char>(r.next());
	void* where = in.storage;
#if VH_LOG
	M::LoggerInterface* lg = in.loggerOn ? &in.logger : nullptr;
#endif
	const bool alt = (++in.ctorCount & 1u) != 0;		// every other construction goes through the alternative constructor / context set-up
	(void) alt;
#if VH_CTX == 0
	#if VH_LOG
		in.m = new (where) FSM::Instance{lg};
	#else
		in.m = new (where) FSM::Instance{};
	#endif
#elif VH_COMPAT && VH_CTX == 3
	#if VH_LOG
		in.m = new (where) FSM::Instance{&in.ctx, lg};
	#else
		in.m = new (where) FSM::Instance{&in.ctx};
	#endif
#elif VH_CTX == 3
	// pointer context: given to the constructor, or left null and supplied with setContext() afterwards
	#if VH_LOG
		in.m = new (where) FSM::Instance{alt ? nullptr : &in.ctx, lg};
	#else
		in.m = alt ? new (where) FSM::Instance{} : new (where) FSM::Instance{&in.ctx};
	#endif
		if (alt) in.m->setContext(&in.ctx);
#elif VH_CTX == 1 && !VH_COMPAT
	// value context: copied from an lvalue (Context&) or moved from a temporary (PureContext&&)
	#if VH_LOG
		in.m = alt ? new (where) FSM::Instance{Ctx(in.ctx), lg} : new (where) FSM::Instance{in.ctx, lg};
	#else
		in.m = alt ? new (where) FSM::Instance{Ctx(in.ctx)} : new (where) FSM::Instance{in.ctx};
	#endif
#else
	#if VH_LOG
		in.m = new (where) FSM::Instance{in.ctx, lg};
	#else
		in.m = new (where) FSM::Instance{in.ctx};
	#endif
#endif
}

struct Op { std::string op; long a = 0, b = 0, p = 0; };

// returns false if the operation is out of contract in the current state (nothing is executed or recorded)
static bool inContract(Inst& in, const Op& o) {
	const std::string& op = o.op;
	if (op == "move" && VH_CTX == 2) return false;
	if (op == "ctor" || op == "copy" || op == "move") return in.m == nullptr;
	if (!in.m) return false;
	if (op == "dtor") {
#if VH_MANUAL
		return !in.m->isActive();		// a manual machine is deactivated with exit() before destruction
#else
		return true;
#endif
	}
	if (op == "attach") return VH_LOG != 0;
	if (op == "obs") return true;
#if VH_MANUAL
	if (op == "enter") return !in.m->isActive();
	if (op == "re") return VH_HISTORY != 0 && !in.m->isActive() && o.a < VH_N;
	if (op == "exit") return in.m->isActive();
	if (op == "load") return VH_SERIAL != 0;
	if (op == "save") return VH_SERIAL != 0;
#else
	if (op == "enter" || op == "exit" || op == "re") return false;
	if (op == "load") return VH_SERIAL != 0 && (o.a & 1) != 0;	// an automatic machine asserts the saved machine was active
	if (op == "save") return VH_SERIAL != 0;
#endif
	if (!in.active()) return false;
	if (op == "with" || op == "iwith") return VH_PAY != 0 && o.a < VH_N;
	if (op == "to" || op == "ito") return o.a < VH_N;
	if (op == "succeed" || op == "fail") return VH_PLANS != 0 && o.a < VH_N;
	if (op == "pc") return VH_PLANS != 0 && o.a < VH_N && o.b < VH_N;
	if (op == "pw") return VH_PLANS != 0 && VH_PAY != 0 && o.a < VH_N && o.b < VH_N;
	if (op == "px" || op == "pr") return VH_PLANS != 0;
	if (op == "rt") return VH_HISTORY != 0 && (o.a < VH_N || o.a == NONE);
	if (op == "update" || op == "react" || op == "query") return true;
	return false;
}

static bool execOp(int idx, const Op& o) {
	if (idx < 0 || idx >= MAX_INST) return false;
	if (!g_inst[idx]) { g_inst[idx] = new Inst(); g_inst[idx]->id = idx; }
	Inst& in = *g_inst[idx];
	if (!inContract(in, o)) return false;
	g_curFsm = in.m; g_curId = in.id;
	if (o.op != "attach") ++in.opCount;		// (lanes without logger skip attach operations and must stay in step)
	g_apiTick = in.opCount * 7919u; g_aliasTick = 0;
	const std::string& op = o.op;
	const char* name = op.c_str();
	long r = 0;
	int cmpOk = 1; (void) cmpOk;
	int keptOk = 1;
	emitCall(in, name, o.a, o.b, o.p);
	g_rec.flush();
	// a const view of the plan taken before the operation must still describe the plan afterwards (operations that keep the machine alive and active)
	using Keeper = PlanKeeper<true, FSM::Instance>;
	alignas(16) unsigned char keeperStore[sizeof(Keeper)];
	Keeper* keeper = nullptr;
	if (in.m && in.active() && (op == "pc" || op == "pw" || op == "pr" || op == "px" || op == "update" || op == "react" || op == "ito" || op == "iwith" ||
								op == "to" || op == "with" || op == "succeed" || op == "fail" || op == "query" || op == "obs" || op == "rt"))
		keeper = new (keeperStore) Keeper(*in.m);
	if (op == "ctor") { g_curFsm = in.storage; in.loggerOn = VH_LOG != 0 && o.p != 0; construct(in, static_cast<int>(o.a), static_cast<uint64_t>(o.b)); }
	else if (op == "copy" || op == "move") {
		Inst* src = (o.a >= 0 && o.a < MAX_INST) ? g_inst[o.a] : nullptr;
		if (src && src->m) {
			in.ctx = src->ctx; in.loggerOn = src->loggerOn; in.opCount = src->opCount; in.ctorCount = src->ctorCount;
			std::memcpy(in.prevBytes, src->prevBytes, sizeof in.prevBytes); in.havePrev = src->havePrev;
			std::memset(in.storage, 0x5C, sizeof in.storage);
			g_curFsm = in.storage;
#if VH_CTX != 2		// (the library's move constructor does not compile for reference contexts)
			if (op == "move")	// the moved-from machine stays a valid, equivalent machine (it is destroyed like any other later)
				in.m = new (static_cast<void*>(in.storage)) FSM::Instance{static_cast<FSM::Instance&&>(*src->m)};
			else
#endif
				in.m = new (static_cast<void*>(in.storage)) FSM::Instance{*src->m};
#if VH_LOG
			in.m->attachLogger(in.loggerOn ? &in.logger : nullptr);
#endif
		}
	}
	else if (op == "dtor") { in.m->~InstanceT(); in.m = nullptr; emitRet(in, name, 0, true); g_curFsm = nullptr; return true; }
#if VH_MANUAL
	else if (op == "enter") in.m->enter();
	else if (op == "exit")	in.m->exit();
#endif
	else if (op == "update") in.m->update();
	else if (op == "react")	 {
		if (o.a & 1) { Ev2 e = { 0.5, static_cast<int>(o.a) }; g_evPtr = &e; g_evType = 2; in.m->react(e); }
		else		 { Ev  e = { static_cast<int>(o.a) };	   g_evPtr = &e; g_evType = 1; in.m->react(e); }
		g_evPtr = nullptr; g_evType = 0; }
	else if (op == "query")	 {
		const FSM::Instance& cm = *in.m;
		if (o.a & 1) { Ev2 e = { 0.5, static_cast<int>(o.a) }; g_evPtr = &e; g_evType = 2; cm.query(e); r = e.v; }
		else		 { Ev  e = { static_cast<int>(o.a) };	   g_evPtr = &e; g_evType = 1; cm.query(e); r = e.v; }
		g_evPtr = nullptr; g_evType = 0; }
	else if (op == "to")	 { if (typedNow()) { F_changeTo<FSM::Instance> f = { *in.m }; typed(static_cast<int>(o.a), f); } else in.m->changeTo(static_cast<ffsm2::StateID>(o.a)); }
	else if (op == "ito")	 { if (typedNow()) { F_immediateChangeTo<FSM::Instance> f = { *in.m }; typed(static_cast<int>(o.a), f); } else in.m->immediateChangeTo(static_cast<ffsm2::StateID>(o.a)); }
#if VH_PAY
	else if (op == "with")	 { const Pay pay = mkPay(static_cast<int>(o.p));		// (the machine offers no accessor to the waiting request, so nothing can alias it here)
							   if (typedNow()) { F_changeWith<FSM::Instance> f = { *in.m, pay }; typed(static_cast<int>(o.a), f); } else in.m->changeWith(static_cast<ffsm2::StateID>(o.a), pay); }
	else if (op == "iwith")	 { const Pay pay = mkPay(static_cast<int>(o.p));
							   if (typedNow()) { F_immediateChangeWith<FSM::Instance> f = { *in.m, pay }; typed(static_cast<int>(o.a), f); } else in.m->immediateChangeWith(static_cast<ffsm2::StateID>(o.a), pay); }
#endif
#if VH_PLANS
	else if (op == "succeed") { if (typedNow()) { F_succeed<FSM::Instance> f = { *in.m }; typed(static_cast<int>(o.a), f); } else in.m->succeed(static_cast<ffsm2::StateID>(o.a)); }
	else if (op == "fail")	  { if (typedNow()) { F_fail<FSM::Instance> f = { *in.m }; typed(static_cast<int>(o.a), f); } else in.m->fail(static_cast<ffsm2::StateID>(o.a)); }
	else if (op == "pc")	  { auto plan = in.m->plan(); r = planChangeVar(plan, static_cast<int>(o.a), static_cast<int>(o.b)) ? 1 : 0; }
#if VH_PAY
	else if (op == "pw")	  { auto plan = in.m->plan(); r = planChangeWithVar(plan, static_cast<int>(o.a), static_cast<int>(o.b), mkPay(static_cast<int>(o.p))) ? 1 : 0; }
#endif
	else if (op == "px")	  in.m->plan().clear();
	else if (op == "pr")	  { auto plan = in.m->plan(); int n = 0; for (auto it = plan.begin(); it; ++it, ++n) if (n == o.a) { it.remove(); r = 1; break; } }
#endif
#if VH_SERIAL
	else if (op == "save") {
		struct { unsigned char pre[8]; FSM::Instance::SerialBuffer buf; unsigned char post[8]; } box;
		std::memset(static_cast<void*>(&box), 0xC3, sizeof box);		// save() must produce the whole buffer itself
		const FSM::Instance& cm = *in.m;
		cm.save(box.buf);
		// the buffer's own comparison operators against the previously saved buffer must agree with the bytes
		{
			// (the buffer compared with is the instance's own previous one - lanes and copies must stay in step)
			if (in.havePrev) {
				FSM::Instance::SerialBuffer prevBuf;
				std::memcpy(prevBuf.data(), in.prevBytes, sizeof(prevBuf.data()));
				const bool same = std::memcmp(prevBuf.data(), box.buf.data(), sizeof(box.buf.data())) == 0;
				if ((prevBuf == box.buf) != same || (prevBuf != box.buf) == same || (box.buf == prevBuf) != same || (box.buf != prevBuf) == same) cmpOk = 0;
			}
			std::memcpy(in.prevBytes, box.buf.data(), sizeof(box.buf.data())); in.havePrev = true;
		}
		r = 0;
		for (size_t n = 0; n < sizeof(box.buf.data()); ++n) r |= static_cast<long>(box.buf.data()[n]) << (8 * n);
		g_serReg = r;
		for (int n = 0; n < 8; ++n) if (box.pre[n] != 0xC3 || box.post[n] != 0xC3) r = -2;	// wrote outside the buffer
		if (!cmpOk && r >= 0) r = -3;		// SerialBuffer::operator== / != disagree with the bytes
		static_assert(sizeof(FSM::Instance::SerialBuffer) <= 2, "serial buffer larger than expected");
	}
	else if (op == "load") {
		struct { unsigned char pre[8]; FSM::Instance::SerialBuffer buf; unsigned char post[8]; } box;
		std::memset(static_cast<void*>(&box), 0xFF, sizeof box);		// load() must read nothing but the buffer: its neighbours are all ones
		for (size_t n = 0; n < sizeof(box.buf.data()); ++n) box.buf.data()[n] = static_cast<uint8_t>((o.a >> (8 * n)) & 0xFF);
		in.m->load(box.buf);
	}
#endif
#if VH_HISTORY
	else if (op == "rt") {
		// every other time the destination equals the machine's own record, that record itself is the argument (an lvalue that aliases the history)
		const FSM::Transition& pt = in.m->previousTransition();
		if (pt && pt.destination == static_cast<ffsm2::StateID>(o.a) && (in.opCount & 1u))
			r = in.m->replayTransition(pt.destination) ? 1 : 0;
		else
			r = in.m->replayTransition(static_cast<ffsm2::StateID>(o.a)) ? 1 : 0;
	}
#if VH_MANUAL
	else if (op == "re")	in.m->replayEnter(static_cast<ffsm2::StateID>(o.a));
#endif
#endif
#if VH_LOG
	else if (op == "attach") { in.loggerOn = o.a != 0; in.m->attachLogger(in.loggerOn ? &in.logger : nullptr); }
#endif
	else if (op == "obs") {}
	if (keeper) { keptOk = keeper->check(*in.m); keeper->~Keeper(); }
	emitRet(in, name, r, false, keptOk);
	g_curFsm = nullptr;
	if (g_rec.buf.size() > (1u << 20)) g_rec.flush();
	return true;
}

} // namespace vh
